package main

import (
	"encoding/json"
	"fmt"
	"math"
	"strconv"
	"strings"

	mxj "github.com/clbanning/mxj/v2"
)

// C14 - casting changes only leaf types, predictably, and never yields NaN or Inf.
//
// Correspondence (Run/RunCast.v): whole-decoder cases (XDec, with and without the cast
// flag), direct leaf cases through mxj.VerifCast, and ParseFloat facts (CPf) that validate
// the Gallina `special` and the hypotheses H1/H0 against the real strconv.ParseFloat.
// Oracle: the property statement evaluated on NewMapXml / NewMapXmlSeq / Map.Json.

const c14CastHeader = "From Mxj Require Import Run.RunCast.\nLocal Open Scope string_scope.\n"

// ---------------------------------------------------------------- Go's special spellings (strconv/atof.go, func special)

// c14GoSpecial transcribes strconv's acceptance of NaN / Inf spellings: "nan" without sign,
// "inf" / "infinity" with an optional sign, ASCII case-insensitive, whole string.
func c14GoSpecial(s string) (kind string, ok bool) {
	lower := func(s string) string {
		b := []byte(s)
		for i, c := range b {
			if 'A' <= c && c <= 'Z' {
				b[i] = c + 32
			}
		}
		return string(b)
	}
	l := lower(s)
	switch l {
	case "nan":
		return "NaN", true
	case "inf", "+inf", "infinity", "+infinity":
		return "+Inf", true
	case "-inf", "-infinity":
		return "-Inf", true
	}
	return "", false
}

// c14CaseVariants returns all 2^len case variants of an ASCII word.
func c14CaseVariants(w string) []string {
	out := []string{""}
	for i := 0; i < len(w); i++ {
		lo, up := strings.ToLower(w[i:i+1]), strings.ToUpper(w[i:i+1])
		next := make([]string, 0, 2*len(out))
		for _, p := range out {
			next = append(next, p+lo)
			if up != lo {
				next = append(next, p+up)
			}
		}
		out = next
	}
	return out
}

// c14SpecialSweep: every case variant of nan / inf / infinity, unsigned and with either sign
// (3 x (8 + 8 + 256) = 816 strings; +nan and -nan are among them and are rejected by strconv).
func c14SpecialSweep() []string {
	var out []string
	for _, w := range []string{"nan", "inf", "infinity"} {
		for _, v := range c14CaseVariants(w) {
			out = append(out, v, "+"+v, "-"+v)
		}
	}
	return out
}

var c14NearMisses = []string{"in", "infin", "infinit", "infinityx", "nann", "na", "n", "i", "+", "-", "+-inf", "--inf", "inf ", " inf",
	"i nf", "ınf", "İnf", "ℹnf", "1nf", "nan0", "0nan", "inf.", ".inf", "+.inf", "infinity.", "NaN()", "snan", "qnan", "1.#INF", "∞", "-∞", ""}

// ---------------------------------------------------------------- leaf texts

var c14IntTexts = []string{"0", "-0", "+0", "1", "-1", "+1", "007", "-007", "42", "9223372036854775807", "9223372036854775808",
	"-9223372036854775807", "-9223372036854775808", "-9223372036854775809", "+9223372036854775807", "+9223372036854775808",
	"18446744073709551615", "18446744073709551616", "+18446744073709551615", "-18446744073709551615", "99999999999999999999999",
	"1_000", "0x10", "0b11", "0o17", "1e3", "٣", "１２"}
var c14FloatTexts = []string{"2.5", "-1.5e3", "1E-3", ".5", "5.", "+.5e-3", "0x1p-2", "0X1.8P1", "-0x1p-1074", "1_0", "1e400", "-1e400",
	"1e-400", "1e308", "1.7976931348623157e308", "1.7976931348623159e308", "4.9e-324", "2e-324", "0x", "1e", "1.2.3", "1,5", "1e+", "e5",
	".", "-.", "1.e1", "0.1e-0", "1p3", "0x1p", "0x.p1", "0x1.0p1024", "3.14159265358979323846264338327950288", "1d3", "1f"}
var c14BoolTexts = []string{"1", "0", "t", "T", "f", "F", "true", "TRUE", "True", "false", "FALSE", "False",
	"tRUE", "TrUe", "truee", "tru", "fals", "FALSe", "fALSE", "ttrue", "yes", "no", "on", "off", "Y", "N", "t.", "T1", "f0", "tabcde", "falsee"}
var c14PlainTexts = []string{"hello", "x y", "é€", "a&b", "<x>", "it's", "N/A", "null", "nil", "-", "+", "--1", "1-", "1 2", "#text", "_seq"}

// c14GenLeafText draws a leaf text and names its category.
func (r *Rng) c14GenLeafText(sweep []string) (string, string) {
	switch r.Intn(12) {
	case 0, 1:
		return r.pick(c14IntTexts), "int"
	case 2:
		// random decimal around the 64-bit boundaries
		base := r.pick([]string{"922337203685477580", "1844674407370955161", "92233720368547758", "18446744073709551"})
		return r.pick([]string{"", "-", "+"}) + base + strconv.Itoa(r.Intn(100)), "int-boundary"
	case 3, 4:
		return r.pick(c14FloatTexts), "float"
	case 5:
		return strconv.FormatFloat(r.NormFloat64()*math.Pow(10, float64(r.Intn(40)-20)), byte(r.pick([]string{"g", "e", "f"})[0]), -1, 64), "float-random"
	case 6, 7:
		return r.pick(sweep), "special"
	case 8:
		return r.pick(c14NearMisses), "special-near-miss"
	case 9, 10:
		return r.pick(c14BoolTexts), "bool"
	default:
		return r.pick(c14PlainTexts), "text"
	}
}

// ---------------------------------------------------------------- option vectors: all 2^5 cast switch combinations

var c14SkipPool = []string{"#text", "-id", "-x", "a", "b", "item", "c", "e", "f", "g", "$text", "@id", "id"}

// c14CastCombo sets the five switches from the bits of k (int, float, bool, naninf, skip function).
func (r *Rng) c14CastCombo(o xOpts, k int) xOpts {
	o.CInt = k&1 != 0
	o.CFloat = k&2 != 0
	o.CBool = k&4 != 0
	o.CNanInf = k&8 != 0
	o.Skip = nil
	if k&16 != 0 {
		n := 1 + r.Intn(3)
		for i := 0; i < n; i++ {
			o.Skip = append(o.Skip, r.pick(c14SkipPool))
		}
	}
	return o
}

func c14ComboName(o xOpts) string {
	b := func(x bool) string {
		if x {
			return "1"
		}
		return "0"
	}
	return "int" + b(o.CInt) + "-float" + b(o.CFloat) + "-bool" + b(o.CBool) + "-naninf" + b(o.CNanInf) + "-skip" + b(len(o.Skip) > 0)
}

// ---------------------------------------------------------------- cases

type c14Case struct {
	Kind string `json:"kind"` // "decode" (pair cast/uncast + seq), "leaf", "pf"
	Opts xOpts  `json:"opts"`
	Doc  string `json:"doc,omitempty"`
	X    string `json:"x,omitempty"`
	Cast bool   `json:"cast,omitempty"`
	Tag  string `json:"tag,omitempty"`
}

func c14PfRes(x string) string {
	f, err := strconv.ParseFloat(x, 64)
	if err != nil {
		return "None"
	}
	return "(Some " + coqStr(fltText(f)) + ")"
}

// c14VerifCast runs the real cast under the options.
func c14VerifCast(o xOpts, x string, cast bool, tag string) Outcome {
	o.apply()
	defer restoreDefaults()
	return protect(func() Outcome { return Outcome{Ret: mxj.VerifCast(x, cast, tag)} })
}

func c14DecodeSeq(o xOpts, doc []byte, cast bool) Outcome {
	o.apply()
	defer restoreDefaults()
	return protect(func() Outcome {
		var m mxj.MapSeq
		var err error
		if cast {
			m, err = mxj.NewMapXmlSeq(doc, true)
		} else {
			m, err = mxj.NewMapXmlSeq(doc)
		}
		if err != nil {
			return Outcome{Err: err}
		}
		return Outcome{Ret: map[string]interface{}(m)}
	})
}

func c14HasNaNInf(v interface{}) bool {
	switch x := v.(type) {
	case float64:
		return math.IsNaN(x) || math.IsInf(x, 0)
	case map[string]interface{}:
		for _, e := range x {
			if c14HasNaNInf(e) {
				return true
			}
		}
	case []interface{}:
		for _, e := range x {
			if c14HasNaNInf(e) {
				return true
			}
		}
	}
	return false
}

// c14OnlyStrings: every leaf is a string (ints allowed under the given sequence keys).
func c14OnlyStrings(v interface{}, seqKeys map[string]bool, key string) bool {
	switch x := v.(type) {
	case string:
		return true
	case int:
		return seqKeys[key]
	case map[string]interface{}:
		for k, e := range x {
			if !c14OnlyStrings(e, seqKeys, k) {
				return false
			}
		}
		return true
	case []interface{}:
		for _, e := range x {
			if !c14OnlyStrings(e, seqKeys, key) {
				return false
			}
		}
		return true
	}
	return false
}

func c14SameKeys(a, b map[string]interface{}) bool {
	if len(a) != len(b) {
		return false
	}
	for k := range a {
		if _, ok := b[k]; !ok {
			return false
		}
	}
	return true
}

// c14CmpCastShape compares the uncast (v0) and cast (v1) results of NewMapXml: same structure and keys,
// every string leaf x of v0 replaced by the value the table prescribes for x under one of the tags
// its position can have (its own key, or the key of the enclosing element for a text value).
// ek is the key of the enclosing element, k the key v0 is stored under. Returns "" or what differs.
func c14CmpCastShape(o xOpts, ek, k string, v0, v1 interface{}, nontriv *bool) string {
	switch a := v0.(type) {
	case string:
		tags := []string{k}
		if k == o.textK() && ek != "" {
			tags = append(tags, ek)
		}
		got := canon(v1)
		var wants []string
		for _, t := range tags {
			w := canon(specCast(o, a, true, t))
			if got == w {
				if got != canon(a) {
					*nontriv = true
				}
				return ""
			}
			wants = append(wants, w)
		}
		return fmt.Sprintf("leaf %q under key %q: cast gives %s, the table prescribes %s", a, k, got, strings.Join(wants, " or "))
	case int:
		if b, ok := v1.(int); ok && a == b {
			return ""
		}
		return fmt.Sprintf("int under %q: %s vs %s", k, canon(v0), canon(v1))
	case map[string]interface{}:
		b, ok := v1.(map[string]interface{})
		if !ok || !c14SameKeys(a, b) {
			return fmt.Sprintf("keys differ at %q: %s vs %s", k, canon(v0), canon(v1))
		}
		for kk, e := range a {
			if d := c14CmpCastShape(o, k, kk, e, b[kk], nontriv); d != "" {
				return d
			}
		}
		return ""
	case []interface{}:
		b, ok := v1.([]interface{})
		if !ok || len(a) != len(b) {
			return fmt.Sprintf("list shape differs at %q: %s vs %s", k, canon(v0), canon(v1))
		}
		for i := range a {
			if d := c14CmpCastShape(o, ek, k, a[i], b[i], nontriv); d != "" {
				return d
			}
		}
		return ""
	}
	return fmt.Sprintf("unexpected uncast value at %q: %s", k, canon(v0))
}

// c14CmpSeqShape: the same for NewMapXmlSeq. Only attribute and element "#text" values are cast (tag "");
// comment / directive text and processing-instruction fields stay strings.
func c14CmpSeqShape(o xOpts, k string, v0, v1 interface{}, castable bool) string {
	switch a := v0.(type) {
	case string:
		want := interface{}(a)
		if castable {
			want = specCast(o, a, true, "")
		}
		if canon(v1) == canon(want) {
			return ""
		}
		return fmt.Sprintf("leaf %q under key %q: cast gives %s, the table prescribes %s", a, k, canon(v1), canon(want))
	case int:
		if b, ok := v1.(int); ok && a == b {
			return ""
		}
		return fmt.Sprintf("int under %q: %s vs %s", k, canon(v0), canon(v1))
	case map[string]interface{}:
		b, ok := v1.(map[string]interface{})
		if !ok || !c14SameKeys(a, b) {
			return fmt.Sprintf("keys differ at %q: %s vs %s", k, canon(v0), canon(v1))
		}
		kp := o.KP
		special := k == kp+"comment" || k == kp+"directive" || k == kp+"procinst"
		for kk, e := range a {
			if d := c14CmpSeqShape(o, kk, e, b[kk], !special && kk == kp+"text"); d != "" {
				return d
			}
		}
		return ""
	case []interface{}:
		b, ok := v1.([]interface{})
		if !ok || len(a) != len(b) {
			return fmt.Sprintf("list shape differs at %q: %s vs %s", k, canon(v0), canon(v1))
		}
		for i := range a {
			if d := c14CmpSeqShape(o, k, a[i], b[i], castable); d != "" {
				return d
			}
		}
		return ""
	}
	return fmt.Sprintf("unexpected uncast value at %q: %s", k, canon(v0))
}

func c14JsonErr(o xOpts, m map[string]interface{}) error {
	o.apply()
	defer restoreDefaults()
	var err error
	func() {
		defer func() {
			if r := recover(); r != nil {
				err = fmt.Errorf("panic: %v", r)
			}
		}()
		_, err = mxj.Map(m).Json()
	}()
	return err
}

func c14OutClass(o Outcome) string {
	if o.Panicked {
		return "panic"
	}
	return errClass(o.Err)
}

// c14Decode: one document, decoded without and with the cast flag by NewMapXml and NewMapXmlSeq.
func c14Decode(run *Run, c c14Case) {
	doc := []byte(c.Doc)
	ts, terr := tokenize(doc, false)
	cands := castCands(ts)
	o0 := decodeXml(c.Opts, doc, false)
	o1 := decodeXml(c.Opts, doc, true)
	nontriv := false
	m0, _ := o0.Ret.(map[string]interface{})
	m1, _ := o1.Ret.(map[string]interface{})

	// ---- oracle
	run.sum.OracleEvals++
	vio := func(key, what, got, want string) {
		run.violation(Violation{Key: key, What: what, Input: c, Got: got, Want: want})
	}
	switch {
	case o0.Panicked && o1.Panicked:
		// the same panic with and without the flag is not about casting: it belongs to C15 (totality)
		run.count("both-runs-panic(C15)")
	case o0.Panicked || o1.Panicked:
		vio("panic", "NewMapXml panics with one value of the cast flag only", o0.text()+" / "+o1.text(), "the same outcome class")
	case c14OutClass(o0) != c14OutClass(o1):
		vio("cast-changes-error", "the cast flag changes whether / how decoding fails", o1.text(), o0.text())
	case o0.Err == nil:
		if d := c14CmpCastShape(c.Opts, "", "", m0, m1, &nontriv); d != "" {
			key := "cast-leaf-differs"
			if strings.HasPrefix(d, "keys differ") || strings.HasPrefix(d, "list shape") || strings.HasPrefix(d, "int under") {
				key = "cast-changes-structure"
			}
			vio(key, "cast-decoded Map is not the plain Map with each string leaf replaced by what its text denotes: "+d, canon(m1), canon(m0))
		}
		seqKeys := map[string]bool{}
		if c.Opts.TSeq {
			seqKeys["_seq"] = true
		}
		if !c14OnlyStrings(m0, seqKeys, "") {
			vio("uncast-non-string", "decoding without the cast flag yields a non-string leaf", canon(m0), "only string leaves")
		}
		if !c.Opts.CNanInf {
			if c14HasNaNInf(m1) {
				vio("naninf-cast", "a NaN/Inf spelling was cast although CastNanInf is off", canon(m1), "no NaN/Inf float64")
			}
			if err := c14JsonErr(c.Opts, m1); err != nil {
				vio("json-fails", "Json() fails on a cast-decoded Map although CastNanInf is off", err.Error(), "nil error")
			}
		}
	}
	// ---- the sequence codec (oracle only; its model belongs to C04)
	s0 := c14DecodeSeq(c.Opts, doc, false)
	s1 := c14DecodeSeq(c.Opts, doc, true)
	run.sum.OracleEvals++
	switch {
	case s0.Panicked && s1.Panicked:
		run.count("seq-both-runs-panic(C15)")
	case s0.Panicked || s1.Panicked:
		vio("seq-panic", "NewMapXmlSeq panics with one value of the cast flag only", s0.text()+" / "+s1.text(), "the same outcome class")
	case c14OutClass(s0) != c14OutClass(s1):
		vio("seq-cast-changes-error", "the cast flag changes whether / how NewMapXmlSeq fails", s1.text(), s0.text())
	case s0.Err == nil:
		q0, _ := s0.Ret.(map[string]interface{})
		q1, _ := s1.Ret.(map[string]interface{})
		if d := c14CmpSeqShape(c.Opts, "", q0, q1, false); d != "" {
			vio("seq-cast-differs", "cast-decoded MapSeq is not the plain MapSeq with each text leaf replaced by what it denotes: "+d, canon(q1), canon(q0))
		}
		if !c14OnlyStrings(q0, map[string]bool{c.Opts.KP + "seq": true}, "") {
			vio("seq-uncast-non-string", "NewMapXmlSeq without the cast flag yields a non-string leaf", canon(q0), "only string leaves")
		}
		if !c.Opts.CNanInf {
			if c14HasNaNInf(q1) {
				vio("seq-naninf-cast", "NewMapXmlSeq cast a NaN/Inf spelling although CastNanInf is off", canon(q1), "no NaN/Inf float64")
			}
			if err := c14JsonErr(c.Opts, q1); err != nil {
				vio("seq-json-fails", "Json() fails on a cast-decoded MapSeq although CastNanInf is off", err.Error(), "nil error")
			}
		}
		run.count("seq-decoded")
	default:
		run.count("seq-error:" + c14OutClass(s0))
	}

	// ---- correspondence: both runs of the Map decoder
	for i, oc := range []Outcome{o0, o1} {
		term := fmt.Sprintf("CX (XDec %s %s %s %s %s %s %s)", c.Opts.coq(), coqBool(i == 1), pfTable(cands),
			coqStrs(c.Opts.Skip), coqToks(ts), coqTerm(terr), xoutRet(oc))
		cc := c
		cc.Cast = i == 1
		run.add(term, cc, oc.text(), nontriv && i == 1)
	}
	run.count("decode:" + c14OutClass(o0))
	run.count("combo:" + c14ComboName(c.Opts))
}

// c14Leaf: cast(x, r, t) directly.
func c14Leaf(run *Run, c c14Case, cat string) {
	oc := c14VerifCast(c.Opts, c.X, c.Cast, c.Tag)
	want := specCast(c.Opts, c.X, c.Cast, c.Tag)
	run.sum.OracleEvals++
	nontriv := false
	if oc.Panicked {
		run.violation(Violation{Key: "cast-panic", What: "cast panicked", Input: c, Got: oc.text(), Want: canon(want)})
	} else {
		if canon(oc.Ret) != canon(want) {
			run.violation(Violation{Key: "cast-leaf-differs", What: "cast does not return what the text denotes under the enabled options", Input: c, Got: canon(oc.Ret), Want: canon(want)})
		}
		if !c.Opts.CNanInf && c14HasNaNInf(oc.Ret) {
			run.violation(Violation{Key: "naninf-cast", What: "a NaN/Inf spelling was cast although CastNanInf is off", Input: c, Got: canon(oc.Ret), Want: canon(c.X)})
		}
		if !c.Cast {
			if s, ok := oc.Ret.(string); !ok || s != c.X {
				run.violation(Violation{Key: "uncast-non-string", What: "cast with the flag off does not return the identical string", Input: c, Got: canon(oc.Ret), Want: canon(c.X)})
			}
		}
		_, isStr := oc.Ret.(string)
		nontriv = !isStr
	}
	ret := "(VStr (s\"<<panic>>\"))"
	if !oc.Panicked {
		ret = coqVal(oc.Ret)
	}
	term := fmt.Sprintf("CLeaf %s %s %s %s %s %s %s", c.Opts.coq(), pfTable([]string{c.X}), coqStrs(c.Opts.Skip),
		coqStr(c.X), coqBool(c.Cast), coqStr(c.Tag), ret)
	run.add(term, c, oc.text(), nontriv)
	run.count("leaf:" + cat)
	run.count("combo:" + c14ComboName(c.Opts))
	if !oc.Panicked {
		run.count(fmt.Sprintf("leaf-result:%T", oc.Ret))
	}
}

// c14Pf: one ParseFloat fact; validates H1/H0 and the transcription of strconv's special spellings.
func c14Pf(run *Run, x string, cat string) {
	c := c14Case{Kind: "pf", X: x, Opts: defaultXOpts()}
	f, err := strconv.ParseFloat(x, 64)
	run.sum.OracleEvals++
	kind, sp := c14GoSpecial(x)
	if err == nil {
		isNI := math.IsNaN(f) || math.IsInf(f, 0)
		if isNI != sp || (sp && fltText(f) != kind) {
			run.violation(Violation{Key: "H1-fails", What: "strconv.ParseFloat returns NaN/Inf with a nil error exactly for the special spellings (hypothesis H1)", Input: c,
				Got: fmt.Sprintf("ParseFloat=%v special=%v", f, sp), Want: "IsNaN||IsInf <-> special spelling"})
		}
		if x == "" {
			run.violation(Violation{Key: "H0-fails", What: "strconv.ParseFloat accepts the empty string (hypothesis H0)", Input: c, Got: fltText(f), Want: "error"})
		}
	} else if sp {
		run.violation(Violation{Key: "H1-fails", What: "a special spelling is rejected by strconv.ParseFloat", Input: c, Got: err.Error(), Want: kind})
	}
	run.add("CPf "+coqStr(x)+" "+c14PfRes(x), c, fmt.Sprintf("%v %v", f, err), sp)
	run.count("pf:" + cat)
}

func init() {
	props["C14"] = runC14
	replays["C14"] = replayC14
}

// c14ThreePositions builds a document that carries x as element text, as attribute value and as text beside an attribute.
func c14ThreePositions(r *Rng, x string) string {
	q := byte('"')
	if r.chance(0.3) {
		q = '\''
	}
	text := xmlEscText(x)
	if !strings.Contains(x, "]]>") && r.chance(0.2) {
		text = "<![CDATA[" + x + "]]>"
	}
	return "<r><e>" + text + "</e><f id=" + string(q) + xmlEscAttr(x, q) + string(q) + "/><g x=\"k\">" + xmlEscText(x) + "</g><item>" + text + "</item><item>" + xmlEscText(x) + "</item></r>"
}

func c14XmlLegal(s string) bool {
	for _, c := range s {
		if c == 0xFFFD || (c < 0x20 && c != '\t' && c != '\n' && c != '\r') {
			return false
		}
	}
	return true
}

func runC14(cfg runCfg) error {
	r := newRng(cfg.seed)
	run := newRun("C14", cfg.out, cfg.seed, cfg.shards, c14CastHeader, "ccase",
		"(1) ParseFloat facts: all 816 case variants of nan/inf/infinity with and without sign (every run), near misses, every generated leaf text; "+
			"(2) direct leaf cases cast(x,r,t) through the verif hook: leaf texts from integers (64-bit boundaries), decimal/exponent/hex floats, overflowing numerals, "+
			"special spellings, ParseBool spellings accepted and rejected, ordinary text x all 2^5 combinations of CastValuesToInt/Float/Bool, CastNanInf, SetCheckTagToSkipFunc (cycled) x tags; "+
			"(3) documents carrying one leaf text in element, attribute, text-key and list positions, and random C01 documents over the same leaf texts, each decoded with and without the cast flag (12% of the random documents truncated or corrupted: malformed stream) "+
			"by NewMapXml (model compared) and NewMapXmlSeq (oracle only) under random decoder options; non-trivial = some leaf is cast to a non-string / the spelling is special; distinct by input hash")
	sweep := c14SpecialSweep()
	// (1) exhaustive sweep, every run
	for _, x := range sweep {
		c14Pf(run, x, "sweep")
	}
	for _, x := range c14NearMisses {
		c14Pf(run, x, "near-miss")
	}
	for _, pool := range [][]string{c14IntTexts, c14FloatTexts, c14BoolTexts, c14PlainTexts} {
		for _, x := range pool {
			c14Pf(run, x, "pool")
		}
	}
	combo := 0
	for i := 0; i < cfg.n; i++ {
		x, cat := r.c14GenLeafText(sweep)
		switch k := i % 10; {
		case k < 4:
			// (2) direct leaf
			o := r.c14CastCombo(defaultXOpts(), combo)
			combo = (combo + 1) % 32
			tag := r.pick([]string{"", "a", "-id", "#text", "item", "zz"})
			if len(o.Skip) > 0 && r.chance(0.5) {
				tag = r.pick(o.Skip)
			}
			c14Leaf(run, c14Case{Kind: "leaf", Opts: o, X: x, Cast: !r.chance(0.1), Tag: tag}, cat)
			if r.chance(0.3) {
				c14Pf(run, x, "generated")
			}
		case k < 7:
			// (3a) one leaf text in every position
			if !c14XmlLegal(x) {
				continue
			}
			o := r.c14CastCombo(r.genDecOpts(), combo)
			combo = (combo + 1) % 32
			run.count("leaf-in-doc:" + cat)
			c14Decode(run, c14Case{Kind: "decode", Opts: o, Doc: c14ThreePositions(r, x)})
		default:
			// (3b) random documents over the leaf texts
			o := r.c14CastCombo(r.genDecOpts(), combo)
			combo = (combo + 1) % 32
			texts := []string{"x", " u ", "hello world"}
			for j := 0; j < 8; j++ {
				t, _ := r.c14GenLeafText(sweep)
				if c14XmlLegal(t) {
					texts = append(texts, t)
				}
			}
			dc := docCfg{maxDepth: 3, maxFan: 3, mixedText: r.chance(0.5), noise: !o.KeepSp && r.chance(0.5), texts: texts}
			root := r.genElem(dc, 0)
			doc := r.renderDoc(root, dc)
			if r.chance(0.12) {
				// malformed stream: a truncated or corrupted document must fail the same way with and without the flag
				if r.chance(0.7) {
					doc = doc[:r.Intn(len(doc))]
				} else {
					p := r.Intn(len(doc))
					doc = doc[:p] + r.pick([]string{"<", "&", "</zz>", "<a", "\x00"}) + doc[p:]
				}
				run.count("malformed-doc")
			} else {
				run.count("random-doc")
			}
			c14Decode(run, c14Case{Kind: "decode", Opts: o, Doc: doc})
		}
	}
	run.sum.Extra = map[string]interface{}{"special_sweep": len(sweep)}
	return run.finish()
}

func replayC14(raw []byte) error {
	var c c14Case
	if err := json.Unmarshal(raw, &c); err != nil {
		return err
	}
	switch c.Kind {
	case "pf":
		f, err := strconv.ParseFloat(c.X, 64)
		k, sp := c14GoSpecial(c.X)
		fmt.Printf("ParseFloat(%q) = %v, %v; special spelling: %v %s\n", c.X, f, err, sp, k)
	case "leaf":
		oc := c14VerifCast(c.Opts, c.X, c.Cast, c.Tag)
		fmt.Printf("options: %s\ncast(%q, %v, %q) = %s\nthe table prescribes: %s\n", mustJSON(c.Opts), c.X, c.Cast, c.Tag, oc.text(), canon(specCast(c.Opts, c.X, c.Cast, c.Tag)))
	default:
		doc := []byte(c.Doc)
		o0, o1 := decodeXml(c.Opts, doc, false), decodeXml(c.Opts, doc, true)
		s0, s1 := c14DecodeSeq(c.Opts, doc, false), c14DecodeSeq(c.Opts, doc, true)
		fmt.Printf("options: %s\ndocument: %s\nNewMapXml(doc):          %s\nNewMapXml(doc, true):    %s\nNewMapXmlSeq(doc):       %s\nNewMapXmlSeq(doc, true): %s\n",
			mustJSON(c.Opts), c.Doc, o0.text(), o1.text(), s0.text(), s1.text())
		if m1, ok := o1.Ret.(map[string]interface{}); ok {
			fmt.Printf("Json() of the cast-decoded Map: error = %v\n", c14JsonErr(c.Opts, m1))
		}
		if q1, ok := s1.Ret.(map[string]interface{}); ok {
			fmt.Printf("Json() of the cast-decoded MapSeq: error = %v\n", c14JsonErr(c.Opts, q1))
		}
	}
	return nil
}
