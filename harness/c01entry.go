package main

// C01, second oracle: the four entry points of the Map decoder (NewMapXml, NewMapXmlReader on an io.ByteReader, NewMapXmlReader
// on a plain io.Reader, NewMapXmlReaderRaw) return the same Map for the same bytes under the same decoder configuration -
// CustomDecoder (nil / without / with its own CharsetReader) x XmlCharsetReader (nil / latin-1 / pass-through) - on documents that
// declare ISO-8859-1 and carry byte pairs that are valid UTF-8 as they stand AND valid latin-1 (so that the two charset readers
// give two different, well-formed texts).  Which reader must apply is documented in xml.go:52-54 ("if CustomDecoder != nil,
// then XmlCharsetReader is ignored"); NewMapXml's side of it is the translated xmlToMap (C01_xml_to_map_code).

import (
	"bytes"
	"encoding/xml"
	"fmt"
	"io"
	"strings"

	mxj "github.com/clbanning/mxj/v2"
)

// latin1Reader transcodes ISO-8859-1 to UTF-8, reading its input through Read (as golang.org/x/net/html/charset does).
type latin1Reader struct {
	in  io.Reader
	out []byte
}

func (l *latin1Reader) Read(p []byte) (int, error) {
	if len(l.out) == 0 {
		buf := make([]byte, 64)
		n, err := l.in.Read(buf)
		for _, b := range buf[:n] {
			l.out = append(l.out, []byte(string(rune(b)))...)
		}
		if n == 0 {
			return 0, err
		}
	}
	n := copy(p, l.out)
	l.out = l.out[n:]
	return n, nil
}

func latin1Charset(cs string, in io.Reader) (io.Reader, error) { return &latin1Reader{in: in}, nil }
func passCharset(cs string, in io.Reader) (io.Reader, error)   { return in, nil }

type c01EntryCase struct {
	Kind   string `json:"kind"` // "entry-points"
	Custom string `json:"custom_decoder"`
	Xcr    string `json:"xml_charset_reader"`
	Cast   bool   `json:"cast"`
	Doc    string `json:"doc"`
}

func latin1ToUTF8(s string) string {
	var sb strings.Builder
	for i := 0; i < len(s); i++ {
		sb.WriteRune(rune(s[i]))
	}
	return sb.String()
}

func c01Entry(run *Run, r *Rng) { entryPoints(run, r, false) }

// c04Entry: the same for the sequence decoder (NewMapXmlSeq, NewMapXmlSeqReader on both reader kinds, NewMapXmlSeqReaderRaw);
// the Map itself is NewMapXmlSeq's (translated glue: C04_xml_seq_to_map_code_is_model), only the agreement is judged.
func c04Entry(run *Run, r *Rng) { entryPoints(run, r, true) }

func entryPoints(run *Run, r *Rng, seq bool) {
	pairs := []string{"\xc3\xa9", "\xc3\xbc", "\xc2\xa3", "\xc3\x9f"}
	names := []string{"r", "doc", "v", "w", "item", "name"}
	root := r.pick(names)
	av := "x" + r.pick(pairs)
	var texts []string
	body := ""
	nkids := 1 + r.Intn(3)
	for i := 0; i < nkids; i++ {
		t := r.pick([]string{"plain", "a" + r.pick(pairs) + "b", r.pick(pairs), "12"})
		texts = append(texts, t)
		body += "<k>" + t + "</k>"
	}
	enc := r.pick([]string{"ISO-8859-1", "ISO-8859-1", "UTF-8", ""})
	decl := ""
	if enc != "" {
		decl = `<?xml version="1.0" encoding="` + enc + `"?>`
	}
	doc := decl + "<" + root + ` id="` + av + `">` + body + "</" + root + ">"
	c := c01EntryCase{Kind: "entry-points", Custom: r.pick([]string{"nil", "nil", "plain", "latin1", "pass"}),
		Xcr: r.pick([]string{"nil", "latin1", "pass"}), Cast: r.chance(0.3), Doc: doc}
	run.count("entry:custom=" + c.Custom + ",xcr=" + c.Xcr)
	run.sum.OracleEvals++

	charset := func(k string) func(string, io.Reader) (io.Reader, error) {
		switch k {
		case "latin1":
			return latin1Charset
		case "pass":
			return passCharset
		}
		return nil
	}
	set := func() {
		switch c.Custom {
		case "nil":
			mxj.CustomDecoder = nil
		default:
			mxj.CustomDecoder = &xml.Decoder{Strict: true, CharsetReader: charset(c.Custom)}
		}
		mxj.XmlCharsetReader = charset(c.Xcr)
	}
	defer func() { mxj.CustomDecoder = nil; mxj.XmlCharsetReader = nil }()
	call := func(f func() (mxj.Map, error)) string {
		set()
		return guard(func() string {
			m, err := f()
			if err != nil && seq {
				// the sequence decoder returns at the XML declaration (a Map of the instruction beside "no root key"), or the
				// tokenizer's error about the declared encoding: both are part of what the entry points must agree on
				return canon(map[string]interface{}(m)) + " | error: " + err.Error()
			}
			if err != nil {
				return "error"
			}
			return canon(map[string]interface{}(m))
		})
	}
	b := []byte(doc)
	flag := []bool{}
	if c.Cast {
		flag = []bool{true}
	}
	got := call(func() (mxj.Map, error) {
		if seq {
			m, err := mxj.NewMapXmlSeq(b, flag...)
			return mxj.Map(m), err
		}
		return mxj.NewMapXml(b, flag...)
	})

	// which charset reader the documentation prescribes, and the Map it gives
	eff := c.Xcr
	if c.Custom != "nil" {
		eff = c.Custom
		if eff == "plain" {
			eff = "nil"
		}
	}
	want := "error"
	conv := func(s string) string { return s }
	ok := true
	switch {
	case enc == "ISO-8859-1" && eff == "nil":
		ok = false // encoding declared but no CharsetReader: an error
	case enc == "ISO-8859-1" && eff == "latin1":
		conv = latin1ToUTF8
	}
	if ok {
		kids := []interface{}{}
		for _, t := range texts {
			var v interface{} = conv(t)
			if c.Cast && t == "12" {
				v = float64(12)
			}
			kids = append(kids, v)
		}
		var kv interface{} = kids
		if len(kids) == 1 {
			kv = kids[0]
		}
		want = canon(map[string]interface{}{root: map[string]interface{}{"-id": conv(av), "k": kv}})
	}
	if !seq && got != want {
		run.violation(Violation{Key: "charset-config", What: "NewMapXml under this CustomDecoder / XmlCharsetReader configuration differs from the documented one", Input: c, Got: got, Want: want})
	}
	alts := []struct {
		name string
		f    func() (mxj.Map, error)
	}{
		{"NewMapXmlReader(io.ByteReader)", func() (mxj.Map, error) { return mxj.NewMapXmlReader(bytes.NewReader(b), flag...) }},
		{"NewMapXmlReader(io.Reader)", func() (mxj.Map, error) { return mxj.NewMapXmlReader(plainReader{bytes.NewReader(b)}, flag...) }},
		{"NewMapXmlReaderRaw(io.Reader)", func() (mxj.Map, error) {
			m, raw, err := mxj.NewMapXmlReaderRaw(plainReader{bytes.NewReader(b)}, flag...)
			if err == nil && !bytes.Equal(raw, b) {
				return nil, fmt.Errorf("raw differs: %q", raw)
			}
			return m, err
		}},
	}
	if seq {
		alts = []struct {
			name string
			f    func() (mxj.Map, error)
		}{
			{"NewMapXmlSeqReader(io.ByteReader)", func() (mxj.Map, error) {
				m, e := mxj.NewMapXmlSeqReader(bytes.NewReader(b), flag...)
				return mxj.Map(m), e
			}},
			{"NewMapXmlSeqReader(io.Reader)", func() (mxj.Map, error) {
				m, e := mxj.NewMapXmlSeqReader(plainReader{bytes.NewReader(b)}, flag...)
				return mxj.Map(m), e
			}},
			{"NewMapXmlSeqReaderRaw(io.Reader)", func() (mxj.Map, error) {
				m, _, err := mxj.NewMapXmlSeqReaderRaw(plainReader{bytes.NewReader(b)}, flag...)
				return mxj.Map(m), err
			}},
		}
	}
	for _, a := range alts {
		if g := call(a.f); g != got {
			key := "entry-points-differ"
			if strings.Contains(a.name, "ReaderRaw") && enc == "ISO-8859-1" && eff != "nil" {
				key = "reader-raw-charset-reader"
			}
			run.violation(Violation{Key: key, What: a.name + " differs from the byte-slice entry point on the same bytes under the same decoder configuration", Input: c, Got: g, Want: got})
		}
	}
}
