module mxjh

go 1.15

require github.com/clbanning/mxj/v2 v2.7.0

replace github.com/clbanning/mxj/v2 => /repo
