package main

// C06 - JSON encode/decode is lossless and agrees with encoding/json.
//
// Correspondence: the string encoder / decoder of encoding/json on single strings (all single bytes,
// strings built from hazardous fragments), Map.Json / Map.JsonIndent (the post-marshal rewrite),
// NewMapJson(Json(m)) and Map.Copy, NewMapJson on arbitrary byte strings with the stdlib decoder as a
// table oracle.  Oracle: the property statement evaluated on the implementation.

import (
	"bytes"
	"encoding/json"
	"fmt"
	"sort"
	"strings"
	"unicode/utf8"

	mxj "github.com/clbanning/mxj/v2"
)

const c06Header = "From Mxj Require Import Run.RunJson.\nLocal Open Scope string_scope.\n"

// the three six-character texts Map.Json looks for: a backslash followed by these
var c06Bs = "\\"
var c06Pats = []string{c06Bs + "u003c", c06Bs + "u003e", c06Bs + "u0026"}

var c06Frags = []string{
	"\\", "\"", "<", ">", "&", "/", "'", "a", "x y", "{", "}", "[", ":", ",", "u003c", "u0026", "u",
	c06Bs + "u003c", c06Bs + "u003e", c06Bs + "u0026", c06Bs + "u003C", c06Bs + c06Bs + "u003e", c06Bs + "u00", c06Bs + "n",
	"\n", "\t", "\b", "\f", "\r", "\x00", "\x1f", "\x7f", " ",
	"\xc3\xa9", "\xe2\x82\xac", "\xf0\x9f\x98\x80", "\xe2\x80\xa8", "\xe2\x80\xa9", "\xe2\x80\xaa", "\xef\xbf\xbd",
	"\xff", "\xc3", "\xed\xa0\x80", "\xe2\x80", "\xc0\xaf", "\xf4\x90\x80\x80",
}

func (r *Rng) c06Str(validOnly bool) string {
	for {
		n := r.Intn(5)
		var sb strings.Builder
		for i := 0; i < n; i++ {
			sb.WriteString(r.pick(c06Frags))
		}
		s := sb.String()
		if !validOnly || utf8.ValidString(s) {
			return s
		}
	}
}

// numbers are carried as the text encoding/json prints
func c06Num(f float64) string {
	b, err := json.Marshal(f)
	if err != nil {
		return "0"
	}
	return string(b)
}

func c06Val(v interface{}) string {
	switch x := v.(type) {
	case nil:
		return "VNil"
	case string:
		return "(VStr " + coqStr(x) + ")"
	case bool:
		return "(VBool " + coqBool(x) + ")"
	case float64:
		return "(VFlt " + coqStr(c06Num(x)) + ")"
	case json.Number:
		return "(VJNum " + coqStr(string(x)) + ")"
	case mxj.Map:
		return c06Val(map[string]interface{}(x))
	case map[string]interface{}:
		ks := make([]string, 0, len(x))
		for k := range x {
			ks = append(ks, k)
		}
		sort.Strings(ks)
		parts := make([]string, len(ks))
		for i, k := range ks {
			parts[i] = "(" + coqStr(k) + "," + c06Val(x[k]) + ")"
		}
		return "(VMap [" + strings.Join(parts, ";") + "])"
	case []interface{}:
		parts := make([]string, len(x))
		for i, e := range x {
			parts[i] = c06Val(e)
		}
		return "(VList [" + strings.Join(parts, ";") + "])"
	}
	return "(VStr " + coqStr(fmt.Sprintf("<<%T>>", v)) + ")"
}

var c06Floats = []float64{0, 1, -1, 2.5, 100, 1e21, 1e20, 1e-7, 1e-6, 123456789, 1.7976931348623157e308, 5e-324, 0.1, -3.25e-9, 4294967296}
var c06Numbers = []string{"0", "12", "-7", "1.50", "1e5", "-0.0", "1E-2", "123456789012345678901234567890"}

func (r *Rng) c06Scalar(validOnly, usenum bool) interface{} {
	switch r.Intn(8) {
	case 0:
		return nil
	case 1:
		return r.chance(0.5)
	case 2:
		if usenum {
			return json.Number(r.pick(c06Numbers))
		}
		return c06Floats[r.Intn(len(c06Floats))]
	}
	return r.c06Str(validOnly)
}

func (r *Rng) c06Value(depth int, validOnly, usenum bool) interface{} {
	if depth >= 3 {
		return r.c06Scalar(validOnly, usenum)
	}
	switch x := r.Intn(10); {
	case x < 6:
		return r.c06Scalar(validOnly, usenum)
	case x < 8:
		return r.c06Map(depth+1, validOnly, usenum)
	default:
		n := r.Intn(4)
		l := make([]interface{}, n)
		for i := range l {
			l[i] = r.c06Value(depth+1, validOnly, usenum)
		}
		return l
	}
}

func (r *Rng) c06Map(depth int, validOnly, usenum bool) map[string]interface{} {
	n := r.Intn(4)
	if depth == 0 && n == 0 && r.chance(0.7) {
		n = 1
	}
	m := map[string]interface{}{}
	for i := 0; i < n; i++ {
		k := r.pick([]string{"a", "b", "k", "", "k"})
		if r.chance(0.4) {
			k = r.c06Str(validOnly)
		}
		m[k] = r.c06Value(depth, validOnly, usenum)
	}
	return m
}

func c06HasPattern(v interface{}) bool {
	switch x := v.(type) {
	case string:
		for _, p := range c06Pats {
			if strings.Contains(x, p) {
				return true
			}
		}
	case map[string]interface{}:
		for k, e := range x {
			if c06HasPattern(k) || c06HasPattern(e) {
				return true
			}
		}
	case []interface{}:
		for _, e := range x {
			if c06HasPattern(e) {
				return true
			}
		}
	}
	return false
}

func c06AllValid(v interface{}) bool {
	switch x := v.(type) {
	case string:
		return utf8.ValidString(x)
	case map[string]interface{}:
		for k, e := range x {
			if !utf8.ValidString(k) || !c06AllValid(e) {
				return false
			}
		}
	case []interface{}:
		for _, e := range x {
			if !c06AllValid(e) {
				return false
			}
		}
	}
	return true
}

// ---------------------------------------------------------------- the environment: encoding/json on strings

func c06Marshal(s string, escapeHTML bool) string {
	if escapeHTML {
		b, _ := json.Marshal(s)
		return string(b)
	}
	var bb bytes.Buffer
	enc := json.NewEncoder(&bb)
	enc.SetEscapeHTML(false)
	enc.Encode(s)
	return strings.TrimSuffix(bb.String(), "\n")
}

// c06NoHTML: any value encoded without HTML escaping (the reference for the default encoding);
// indented = what MarshalIndent does with it (json.Indent over the compact text)
func c06NoHTML(v interface{}, prefix, indent string, indented bool) []byte {
	var bb bytes.Buffer
	enc := json.NewEncoder(&bb)
	enc.SetEscapeHTML(false)
	if err := enc.Encode(v); err != nil {
		return nil
	}
	compact := bytes.TrimSuffix(bb.Bytes(), []byte("\n"))
	if !indented {
		return compact
	}
	var out bytes.Buffer
	if err := json.Indent(&out, compact, prefix, indent); err != nil {
		return nil
	}
	return out.Bytes()
}

func c06Unquote(body string) (string, bool) {
	var s string
	if err := json.Unmarshal([]byte("\""+body+"\""), &s); err != nil {
		return "", false
	}
	return s, true
}

// c06DecOracle: the first value of the text as encoding/json decodes it into an interface{}.
func c06DecOracle(b []byte, usenum bool) Outcome {
	return protect(func() Outcome {
		var v interface{}
		dec := json.NewDecoder(bytes.NewReader(b))
		if usenum {
			dec.UseNumber()
		}
		if err := dec.Decode(&v); err != nil {
			return Outcome{Err: err}
		}
		return Outcome{Ret: v}
	})
}

func c06Res(o Outcome) string {
	if o.Panicked {
		return "Panic"
	}
	if o.Err != nil {
		return "(Err EOther)"
	}
	return "(Ok " + c06Val(o.Ret) + ")"
}

func c06Out(o Outcome) string {
	if o.Panicked {
		return "JPanicked"
	}
	if o.Err != nil {
		return "JFail"
	}
	if b, ok := o.Ret.([]byte); ok {
		return "(JBytes " + coqStr(string(b)) + ")"
	}
	return "(JVal " + c06Val(o.Ret) + ")"
}

// ---------------------------------------------------------------- cases

type c06Case struct {
	Kind   string      `json:"kind"` // quote unq json indent round copy dec
	S      []byte      `json:"s,omitempty"`
	EH     bool        `json:"escapeHTML,omitempty"`
	Safe   bool        `json:"safe,omitempty"`
	UseNum bool        `json:"useNumber,omitempty"`
	Prefix string      `json:"prefix,omitempty"`
	Indent string      `json:"indent,omitempty"`
	M      interface{} `json:"m,omitempty"` // the Map; json.Number values as {"$num": text}, strings as {"$s": base64} when not valid UTF-8
}

func c06Pack(v interface{}) interface{} {
	switch x := v.(type) {
	case string:
		if utf8.ValidString(x) {
			return x
		}
		return map[string]interface{}{"$bytes": []byte(x)}
	case json.Number:
		return map[string]interface{}{"$num": string(x)}
	case map[string]interface{}:
		// keys may be invalid UTF-8 too: a list of pairs
		var ents []interface{}
		ks := make([]string, 0, len(x))
		for k := range x {
			ks = append(ks, k)
		}
		sort.Strings(ks)
		for _, k := range ks {
			ents = append(ents, []interface{}{[]byte(k), c06Pack(x[k])})
		}
		return map[string]interface{}{"$map": ents}
	case []interface{}:
		l := make([]interface{}, len(x))
		for i, e := range x {
			l[i] = c06Pack(e)
		}
		return l
	}
	return v
}

func c06Unpack(v interface{}) interface{} {
	switch x := v.(type) {
	case map[string]interface{}:
		if b, ok := x["$bytes"]; ok {
			var bs []byte
			bb, _ := json.Marshal(b)
			json.Unmarshal(bb, &bs)
			return string(bs)
		}
		if n, ok := x["$num"]; ok {
			return json.Number(fmt.Sprint(n))
		}
		if es, ok := x["$map"]; ok {
			m := map[string]interface{}{}
			l, _ := es.([]interface{})
			for _, e := range l {
				p, _ := e.([]interface{})
				if len(p) == 2 {
					var ks []byte
					bb, _ := json.Marshal(p[0])
					json.Unmarshal(bb, &ks)
					m[string(ks)] = c06Unpack(p[1])
				}
			}
			return m
		}
	case []interface{}:
		l := make([]interface{}, len(x))
		for i, e := range x {
			l[i] = c06Unpack(e)
		}
		return l
	}
	return v
}

func c06Json(m map[string]interface{}, safe bool) Outcome {
	return protect(func() Outcome {
		var b []byte
		var err error
		if safe {
			b, err = mxj.Map(m).Json(true)
		} else {
			b, err = mxj.Map(m).Json()
		}
		if err != nil {
			return Outcome{Err: err}
		}
		return Outcome{Ret: b}
	})
}

func c06JsonIndent(m map[string]interface{}, prefix, indent string, safe bool) Outcome {
	return protect(func() Outcome {
		var b []byte
		var err error
		if safe {
			b, err = mxj.Map(m).JsonIndent(prefix, indent, true)
		} else {
			b, err = mxj.Map(m).JsonIndent(prefix, indent)
		}
		if err != nil {
			return Outcome{Err: err}
		}
		return Outcome{Ret: b}
	})
}

func c06NewMapJson(b []byte, usenum bool) Outcome {
	mxj.JsonUseNumber = usenum
	defer func() { mxj.JsonUseNumber = false }()
	return protect(func() Outcome {
		m, err := mxj.NewMapJson(b)
		if err != nil {
			return Outcome{Err: err}
		}
		return Outcome{Ret: map[string]interface{}(m)}
	})
}

func c06Round(m map[string]interface{}, safe, usenum bool) Outcome {
	j := c06Json(m, safe)
	if j.Panicked || j.Err != nil {
		return j
	}
	return c06NewMapJson(j.Ret.([]byte), usenum)
}

func c06Copy(m map[string]interface{}) Outcome {
	return protect(func() Outcome {
		c, err := mxj.Map(m).Copy()
		if err != nil {
			return Outcome{Err: err}
		}
		return Outcome{Ret: map[string]interface{}(c)}
	})
}

func c06Text(o Outcome) string {
	if o.Panicked {
		return "panic: " + o.PanicMsg
	}
	if o.Err != nil {
		return "error: " + o.Err.Error()
	}
	if b, ok := o.Ret.([]byte); ok {
		return string(b)
	}
	return canon(o.Ret)
}

func (c c06Case) run() (term, impl string) {
	m, _ := c06Unpack(c.M).(map[string]interface{})
	switch c.Kind {
	case "quote":
		out := c06Marshal(string(c.S), c.EH)
		return fmt.Sprintf("JQuote %s %s %s", coqBool(c.EH), coqStr(string(c.S)), coqStr(out)), out
	case "unq":
		s, ok := c06Unquote(string(c.S))
		if !ok {
			return fmt.Sprintf("JUnq %s None", coqStr(string(c.S))), "error"
		}
		return fmt.Sprintf("JUnq %s (Some %s)", coqStr(string(c.S)), coqStr(s)), s
	case "json":
		o := c06Json(m, c.Safe)
		return fmt.Sprintf("JJson %s %s %s", coqBool(c.Safe), c06Val(m), c06Out(o)), c06Text(o)
	case "indent":
		o := c06JsonIndent(m, c.Prefix, c.Indent, c.Safe)
		return fmt.Sprintf("JIndent %s %s %s %s %s", coqStr(c.Prefix), coqStr(c.Indent), coqBool(c.Safe), c06Val(m), c06Out(o)), c06Text(o)
	case "round":
		o := c06Round(m, c.Safe, c.UseNum)
		return fmt.Sprintf("JRound %s %s %s %s", coqBool(c.Safe), coqBool(c.UseNum), c06Val(m), c06Out(o)), c06Text(o)
	case "copy":
		o := c06Copy(m)
		return fmt.Sprintf("JRound false false %s %s", c06Val(m), c06Out(o)), c06Text(o)
	case "dec":
		o := c06NewMapJson(c.S, false)
		tab := "[(" + coqStr(string(c.S)) + "," + c06Res(c06DecOracle(c.S, false)) + ")]"
		return fmt.Sprintf("JDec %s %s %s", coqStr(string(c.S)), tab, c06Out(o)), c06Text(o)
	case "legacy":
		// the former default encoding of one string, with the real bytes.Replace
		b := []byte(c06Marshal(string(c.S), true))
		for i, p := range c06Pats {
			b = bytes.Replace(b, []byte(p), []byte{"<>&"[i]}, -1)
		}
		return fmt.Sprintf("JLegacy %s %s", coqStr(string(c.S)), coqStr(string(b))), string(b)
	}
	return "JUnq [] None", "?"
}

// ---------------------------------------------------------------- the property on the implementation

// c06MapKey: no shape of a Map is a known finding any more (the literal-escape-text defect is repaired in /repo b2598e9)
func c06MapKey(m map[string]interface{}) string { return "" }

func c06OracleMap(run *Run, m map[string]interface{}, usenum bool, prefix, indent string) {
	if strings.Trim(prefix, " \t") != "" {
		prefix = "" // MarshalIndent copies the prefix verbatim: the output is JSON only for a prefix made of blanks
	}
	in := c06Case{Kind: "round", M: c06Pack(m), UseNum: usenum, Prefix: prefix, Indent: indent}
	want := canon(m)
	viol := func(clause, what, got, wantS string, safe bool) {
		key := c06MapKey(m)
		if key == "" || safe {
			key = clause
		}
		c := in
		c.Safe = safe
		run.violation(Violation{Key: key, What: what, Input: c, Got: got, Want: wantS})
	}
	for _, safe := range []bool{false, true} {
		for _, indented := range []bool{false, true} {
			run.sum.OracleEvals++
			var o Outcome
			name := "Json"
			if indented {
				o = c06JsonIndent(m, prefix, indent, safe)
				name = "JsonIndent"
			} else {
				o = c06Json(m, safe)
			}
			if o.Panicked || o.Err != nil {
				viol("encode-error", name+" fails on a Map of JSON types", c06Text(o), "JSON", safe)
				continue
			}
			b := o.Ret.([]byte)
			if !json.Valid(b) {
				viol("invalid-json", name+" output is not valid JSON", string(b), "valid JSON", safe)
				continue
			}
			back := c06NewMapJson(b, usenum)
			if back.Panicked || back.Err != nil || canon(back.Ret) != want {
				viol("roundtrip", "NewMapJson("+name+"(m)) differs from m", c06Text(back), want, safe)
				continue
			}
			if safe && bytes.ContainsAny(b, "<>&") {
				viol("safe-literal", "safe encoding contains a literal <, > or &", string(b), "no literal < > &", safe)
			}
			if !safe {
				if ref := c06NoHTML(m, prefix, indent, indented); !bytes.Equal(ref, b) {
					viol("default-literal", "default encoding is not the encoding with <, > and & written literally", string(b), string(ref), safe)
				}
			}
		}
	}
	if !usenum {
		run.sum.OracleEvals++
		if c := c06Copy(m); c.Panicked || c.Err != nil || canon(c.Ret) != want {
			key := c06MapKey(m)
			if key == "" {
				key = "copy"
			}
			cc := in
			cc.Kind = "copy"
			run.violation(Violation{Key: key, What: "Copy() differs from the receiver", Input: cc, Got: c06Text(c), Want: want})
		}
	}
}

// NewMapJson accepts exactly the inputs whose first value encoding/json decodes as an object (or array,
// wrapped under "object") and returns the same value.
func c06OracleDec(run *Run, b []byte) {
	c06OracleDecN(run, b, false)
	c06OracleDecN(run, b, true) // with JsonUseNumber numbers keep their exact text, in objects and in top-level arrays alike
}

func c06OracleDecN(run *Run, b []byte, usenum bool) {
	run.sum.OracleEvals++
	got := c06NewMapJson(b, usenum)
	var v interface{}
	dec := json.NewDecoder(bytes.NewReader(b))
	if usenum {
		dec.UseNumber()
	}
	err := dec.Decode(&v)
	var want interface{}
	switch x := v.(type) {
	case map[string]interface{}:
		if err == nil {
			want = x
		}
	case []interface{}:
		if err == nil {
			want = map[string]interface{}{"object": x}
		}
	}
	accepted := !got.Panicked && got.Err == nil
	ok := false
	if want == nil {
		ok = !accepted && !got.Panicked
	} else {
		ok = accepted && canon(got.Ret) == canon(want)
	}
	if ok {
		return
	}
	key := "acceptance"
	if usenum {
		key = "acceptance-usenumber"
	}
	switch {
	case got.Panicked:
		key = "panic"
	case len(b) == 0:
		key = "empty-input-accepted" // documented: "empty or nil begets empty"
	}
	wantS := "an error (the first value is not an object or array)"
	if want != nil {
		wantS = canon(want)
	}
	run.violation(Violation{Key: key, What: "NewMapJson does not agree with encoding/json on the first value", Input: c06Case{Kind: "dec", S: b, UseNum: usenum},
		Got: c06Text(got), Want: wantS})
}

// ---------------------------------------------------------------- run

func init() {
	props["C06"] = runC06
	replays["C06"] = replayC06
}

func c06Add(run *Run, c c06Case, nontrivial bool) {
	term, impl := c.run()
	run.count("kind:" + c.Kind)
	run.add(term, c, impl, nontrivial)
}

var c06Docs = []string{" [1]", "[1] x", "null", `{"a":1e400}`, "", "[]", "[", "{}", " {}", "\n[1,2]", `{"a":1}{"b":2}`, `[1]{"a":2}`, "nul",
	`"s"`, "1", "true", `{"a":1,}`, `{"a":1} x`, ` {"a":[1,{"b":null}]} `, "[[]]", `[{"a":1},2]`, "[1,2", "]", "{", `{"a"}`, "\t\r\n", " null", "[null]",
	`{"a":"` + "\\" + `u003c"}`, `{"a":"<"}`, `["` + "\\" + `ud83d` + "\\" + `ude00"]`, `{"a":1,"a":2}`, `[12345678901234567890, 1.10, 1E2, -0]`, `{"n":12345678901234567890,"l":[1.10]}`, "\xef\xbb\xbf{}", "[1]\n", "[1] ", "[] []", `{"object":1}`}

func runC06(cfg runCfg) error {
	r := newRng(cfg.seed)
	run := newRun("C06", cfg.out, cfg.seed, cfg.shards, c06Header, "jcase",
		"all 256 single bytes through the string encoder (HTML escaping on/off) and through Map{k:s}.Json (default, safe); strings of 0-4 "+
			"hazardous fragments (backslash, quote, control characters, < > &, the literal texts backslash-u003c/u003e/u0026, non-ASCII, "+
			"U+2028/9, invalid UTF-8) through the encoder, the decoder and Json/JsonIndent; random Maps of JSON types (float64 or json.Number "+
			"numbers, hazardous keys and values) through Json, JsonIndent, NewMapJson(Json), Copy; byte strings (documents, blanks, trailing "+
			"data, truncations, scalars) through NewMapJson with the stdlib decoder as table oracle; non-trivial = a Map case with a string "+
			"that needs escaping or a decoder case; distinct by input hash")
	restoreDefaults()
	mxj.JsonUseNumber = false

	// ---- every single byte
	for b := 0; b < 256; b++ {
		s := []byte{byte(b)}
		c06Add(run, c06Case{Kind: "quote", S: s, EH: true}, false)
		c06Add(run, c06Case{Kind: "quote", S: s, EH: false}, false)
		m := map[string]interface{}{"k": string(s)}
		c06Add(run, c06Case{Kind: "json", M: c06Pack(m), Safe: b%2 == 0}, false)
		c06Add(run, c06Case{Kind: "json", M: c06Pack(map[string]interface{}{string(s): "v"}), Safe: b%2 == 1}, false)
		c06Add(run, c06Case{Kind: "unq", S: s}, false)
		c06Add(run, c06Case{Kind: "unq", S: []byte("\\" + string(s))}, false)
		c06Add(run, c06Case{Kind: "legacy", S: s}, false)
		if b < 0x80 || false {
			c06OracleMap(run, m, false, "", " ")
		}
	}
	// ---- every fragment alone and the probes of NewMapJson
	for _, f := range c06Frags {
		c06Add(run, c06Case{Kind: "quote", S: []byte(f), EH: true}, true)
		m := map[string]interface{}{"k": f}
		c06Add(run, c06Case{Kind: "json", M: c06Pack(m)}, true)
		c06Add(run, c06Case{Kind: "round", M: c06Pack(m)}, true)
		c06Add(run, c06Case{Kind: "copy", M: c06Pack(m)}, true)
		if utf8.ValidString(f) {
			c06OracleMap(run, m, false, "", "  ")
		}
	}
	for _, d := range c06Docs {
		c06Add(run, c06Case{Kind: "dec", S: []byte(d)}, true)
		c06OracleDec(run, []byte(d))
	}
	unqExtra := []string{"\\" + "ud83d" + "\\" + "ude00", "\\" + "ud800", "\\" + "ud800x", "\\" + "udc00" + "\\" + "ud800", "\\" + "u12", "\\" + "uZZZZ", "\\" + "x41", "\\" + "'",
		"\\" + "/", "\\" + "u0041", "\\" + "u00e9", "\\" + "u20AC", "\\" + "ud83d" + "\\" + "u0041", "\\" + "ud83d" + "\\" + "n", "\\"}
	for _, u := range unqExtra {
		c06Add(run, c06Case{Kind: "unq", S: []byte(u)}, true)
	}

	// ---- random
	for run.sum.Evaluations < cfg.n {
		switch x := r.Intn(20); {
		case x < 3:
			s := r.c06Str(false)
			if r.chance(0.3) {
				c06Add(run, c06Case{Kind: "legacy", S: []byte(s)}, true)
			} else {
				c06Add(run, c06Case{Kind: "quote", S: []byte(s), EH: r.chance(0.6)}, true)
			}
		case x < 6:
			// literal bodies: what the encoder wrote (rewritten or not), and free combinations
			var body string
			switch r.Intn(3) {
			case 0:
				q := c06Marshal(r.c06Str(false), true)
				body = q[1 : len(q)-1]
			case 1:
				j, _ := mxj.Map(map[string]interface{}{"k": r.c06Str(false)}).Json()
				body = strings.TrimSuffix(strings.TrimPrefix(string(j), `{"k":"`), `"}`)
				if r.chance(0.3) {
					// what the former default encoding would have written (possibly an invalid literal)
					b := []byte(body)
					for i, p := range c06Pats {
						b = bytes.Replace(b, []byte(p), []byte{"<>&"[i]}, -1)
					}
					body = string(b)
				}
			default:
				body = r.c06Str(false)
			}
			c06Add(run, c06Case{Kind: "unq", S: []byte(body)}, true)
		case x < 16:
			usenum := r.chance(0.25)
			valid := r.chance(0.8)
			m := r.c06Map(0, valid, usenum)
			prefix, indent := r.pick([]string{"", "", " ", ">"}), r.pick([]string{"", " ", "  ", "\t"})
			switch r.Intn(5) {
			case 0:
				c06Add(run, c06Case{Kind: "json", M: c06Pack(m), Safe: r.chance(0.5)}, true)
			case 1:
				c06Add(run, c06Case{Kind: "indent", M: c06Pack(m), Safe: r.chance(0.5), Prefix: prefix, Indent: indent}, true)
			case 2, 3:
				c06Add(run, c06Case{Kind: "round", M: c06Pack(m), Safe: r.chance(0.5), UseNum: usenum}, true)
			default:
				if usenum {
					c06Add(run, c06Case{Kind: "round", M: c06Pack(m), UseNum: true}, true)
				} else {
					c06Add(run, c06Case{Kind: "copy", M: c06Pack(m)}, true)
				}
			}
			if c06AllValid(m) {
				run.count("oracle-map")
				if c06HasPattern(m) {
					run.count("oracle-map-with-literal-escape-text")
				}
				c06OracleMap(run, m, usenum, prefix, indent)
			}
		default:
			// a byte string for NewMapJson: a document with blanks / trailing data / truncation / corruption
			var d []byte
			switch r.Intn(4) {
			case 0:
				d, _ = json.Marshal(r.c06Map(0, true, false))
			case 1:
				l := []interface{}{r.c06Value(1, true, false), r.c06Value(1, true, false)}
				d, _ = json.Marshal(l[:r.Intn(3)])
			case 2:
				d, _ = json.Marshal(r.c06Scalar(true, false))
			default:
				d = []byte(r.pick(c06Docs))
			}
			if r.chance(0.3) {
				d = append([]byte(r.pick([]string{" ", "\n", "\t ", "\r\n"})), d...)
			}
			if r.chance(0.3) {
				d = append(d, r.pick([]string{" ", "\n", " x", "{}", "[1]", ",", "]", "}"})...)
			}
			if r.chance(0.15) && len(d) > 1 {
				d = d[:r.Intn(len(d))]
			}
			if r.chance(0.1) && len(d) > 0 {
				d[r.Intn(len(d))] = byte(r.Intn(256))
			}
			c06Add(run, c06Case{Kind: "dec", S: d}, true)
			c06OracleDec(run, d)
		}
	}
	// results kept across calls (a returned slice must never alias memory a later call re-uses)
	for k := 0; k < cfg.n/40+5; k++ {
		hr := newRng(cfg.seed*7919 + int64(k))
		var ms []map[string]interface{}
		for q := 0; q < 3+hr.Intn(3); q++ {
			ms = append(ms, map[string]interface{}{hr.pick(keyPool): hr.pick([]string{"<a&b>", "x", "longer value with <, > and &", "\\u003c"}), "n": float64(hr.Intn(1000)), "l": []interface{}{hr.pick(strPool), hr.pick(strPool)}})
		}
		runHeld(run, heldCase{Kind: "held-results", Enc: []string{"Json", "JsonSafe", "JsonIndent"}, Maps: ms})
	}
	return run.finish()
}

func replayC06(raw []byte) error {
	var c c06Case
	if err := json.Unmarshal(raw, &c); err != nil {
		return err
	}
	restoreDefaults()
	m, _ := c06Unpack(c.M).(map[string]interface{})
	fmt.Printf("kind: %s\n", c.Kind)
	if m != nil {
		fmt.Printf("Map:  %s\n", canon(m))
		for _, safe := range []bool{false, true} {
			o := c06Json(m, safe)
			fmt.Printf("Json(safe=%v): %s\n", safe, c06Text(o))
			if o.Err == nil && !o.Panicked {
				fmt.Printf("  json.Valid: %v; NewMapJson: %s\n", json.Valid(o.Ret.([]byte)), c06Text(c06NewMapJson(o.Ret.([]byte), c.UseNum)))
			}
		}
		fmt.Printf("Copy: %s\n", c06Text(c06Copy(m)))
		return nil
	}
	_, impl := c.run()
	fmt.Printf("input: %q\nobserved: %s\n", c.S, impl)
	return nil
}
