package main

// C15 - decoders and string-argument APIs are total: a result or an error, never a panic,
// never a hang, no partial Map with an error, decoder output always encodable.
//
// Inputs: every truncation and many local corruptions of short well-formed documents, stray end
// tags, unbalanced braces, invalid UTF-8; hostile path / key / sub-key / key-pair / new-value
// strings on arbitrary Maps (empty keys included).
// The cases run in a worker process so that a fatal error (stack overflow, runtime throw) or a
// hang of the implementation is observed as a violation instead of killing the check.

import (
	"bytes"
	"encoding/json"
	"encoding/xml"
	"fmt"
	"io"
	"os"
	"os/exec"
	"path/filepath"
	"strings"
	"time"

	mxj "github.com/clbanning/mxj/v2"
)

type c15Case struct {
	Kind  string  `json:"kind"` // "bytes", "args" or "keyprefix" (bytes decoded under SetGlobalKeyMapPrefix(Pfx))
	Pfx   string  `json:"pfx,omitempty"`
	Input string  `json:"input,omitempty"`
	Hex   bool    `json:"hex,omitempty"` // Input is hex (non UTF-8 bytes)
	KV    *kvCase `json:"kv,omitempty"`
}

func (c c15Case) bytes() []byte {
	if c.Hex {
		var b []byte
		fmt.Sscanf(c.Input, "%x", &b)
		return b
	}
	return []byte(c.Input)
}

var c15Docs = []string{
	`<a/>`, `<a></a>`, `<a x="1"/>`, `<a>t</a>`, `<a x="1">t</a>`, `<a><b>1</b><b>2</b></a>`, `<a>t<b/>u</a>`,
	`<?xml version="1.0"?><a><!-- c --><b x='y'>z</b></a>`, `<ns:a xmlns:ns="u"><ns:b ns:k="v"/></ns:a>`,
	`<a><![CDATA[x<y]]></a>`, `<a>&lt;&amp;&#x41;</a>`, `<!DOCTYPE a><a><?pi d?></a>`, `<stream:stream xmlns:stream="s"><b/>`,
	"<a>\n <b>1</b>\n</a>\n<c/>", `<a><b><c><d>deep</d></c></b></a>`, `<doc>12<a>1</a><!-- c -->true<b x="2.5">-7.25</b></doc>`,
}
var c15Json = []string{
	`{}`, `{"a":1}`, `{"a":"x","b":[1,"y",{"c":null}]}`, `[1,{"a":2}]`, `{"a":"br{ace}s \" \\"}`, `{"a":{"b":{"c":[[]]}}}`,
	` {"a":true} {"b":false}`, `{"a":1e400}`, `{"a":"éé"}`, `null`, `"str"`, `12`,
}

func (r *Rng) corrupt(b []byte) []byte {
	if len(b) == 0 {
		return []byte{"<>&\"{}[]"[r.Intn(8)]}
	}
	out := append([]byte{}, b...)
	subs := []byte{'<', '>', '&', '"', '\'', '/', '=', '{', '}', '[', ']', ',', ':', '\\', 0, 0xff, 0xc3, ' ', '!', '?', '-', ';'}
	switch r.Intn(5) {
	case 0: // replace
		out[r.Intn(len(out))] = subs[r.Intn(len(subs))]
	case 1: // delete
		i := r.Intn(len(out))
		out = append(out[:i], out[i+1:]...)
	case 2: // insert
		i := r.Intn(len(out) + 1)
		out = append(out[:i], append([]byte{subs[r.Intn(len(subs))]}, out[i:]...)...)
	case 3: // duplicate a slice
		i := r.Intn(len(out))
		j := i + r.Intn(len(out)-i)
		out = append(out[:j], append(append([]byte{}, out[i:j]...), out[j:]...)...)
	case 4: // stray end tag / closing brace
		i := r.Intn(len(out) + 1)
		ins := r.pick([]string{"</a>", "</x>", "}", "]", "<a", "<!--", "<![CDATA[", "&#", "<?"})
		out = append(out[:i], append([]byte(ins), out[i:]...)...)
	}
	return out
}

var hostilePaths = []string{"", ".", "..", "a.", ".a", "a..b", "a[", "a]", "a[]", "a[x]", "a[-1]", "a[99999999999999999999]", "[0]", "a[0][1]", "*[0]", "a[0]b",
	"a[0", "a.[0]", "*", "*.*", "a.*.", "a[1]x[2]", "a[ 1]", "a[+1]", "a[0x1]", "a.b[2].c[0]", "[", "]", "][", "a[1]]"}
var hostileSub = []string{":x", "x:", ":", "a:b:c:d", "!", "!:*", "k:v:bool", "k:true:bool", "k:1:float", "k:x:float", "k:1:int", "k:v:string", "k:v:", "::", "!k", "-:*", "*:*", "k::bool"}
var hostilePairs = []string{"", ":", ":a", "a:", "a:b:c", "a", "*:x", "a:*", "a:b[0]", "a[0]:b", "a:b.", "a:.b", "a:b..c", ".:.", "a.*:x.y"}
var hostileNewVals = []interface{}{"", ":", "k:", ":v", "k:v:bool", "k:true:bool", "k:1.5:float", "k:x:float", "k:v:x", "k:v:bool:more", "k", map[string]interface{}{}, map[string]interface{}{"a": 1, "b": 2}, map[string]interface{}{"": 1}, 17}

func (r *Rng) genC15Args() *kvCase {
	m := r.genMap(genCfg{maxDepth: 4, maxFan: 4, nestedLists: r.chance(0.3), emptyLists: true, oddKeys: true, wide: false}, 0)
	if r.chance(0.3) {
		m[""] = r.genVal(genCfg{maxDepth: 2, maxFan: 3, oddKeys: true, emptyLists: true}, 1, false)
	}
	pickPath := func() string {
		if r.chance(0.6) {
			return r.pick(hostilePaths)
		}
		return r.genPath(m, r.chance(0.5), true, true)
	}
	c := &kvCase{Map: m, Sep: ":"}
	if r.chance(0.1) {
		c.Sep = r.pick([]string{"|", "::", ";"})
	}
	switch r.Intn(12) {
	case 0, 1:
		c.Op, c.Path = "ValuesForPath", pickPath()
		if r.chance(0.6) {
			c.SubKeys = []string{r.pick(hostileSub)}
			if r.chance(0.3) {
				c.SubKeys = append(c.SubKeys, r.pick(hostileSub))
			}
		}
	case 2:
		c.Op, c.Key = "ValuesForKey", r.pick([]string{"", "*", "a", "k", "a.b", "["})
		c.SubKeys = []string{r.pick(hostileSub)}
	case 3:
		c.Op, c.Path = "ValueForPath", pickPath()
	case 4:
		c.Op, c.Path = "Exists", pickPath()
		if r.chance(0.4) {
			c.SubKeys = []string{r.pick(hostileSub)}
		}
	case 5:
		c.Op, c.Key = r.pick([]string{"PathsForKey", "PathForKeyShortest"}), r.pick([]string{"", "*", "a", "k", "a.b"})
	case 6:
		c.Op = r.pick([]string{"LeafNodes", "LeafPaths", "LeafValues"})
		c.NoAttr, c.DotN, c.Prefix = r.chance(0.5), r.chance(0.5), r.pick([]string{"-", "", "@", "attr_"})
	case 7, 8:
		c.Op, c.Path = "UpdateValuesForPath", pickPath()
		c.NewVal = hostileNewVals[r.Intn(len(hostileNewVals))]
		if r.chance(0.4) {
			c.NewVal = "k:new"
		}
		if r.chance(0.4) {
			c.SubKeys = []string{r.pick(hostileSub)}
		}
	case 9:
		c.Op, c.Path, c.NewVal = "SetValueForPath", pickPath(), r.genScalar()
	case 10:
		if r.chance(0.5) {
			c.Op, c.Path = "Remove", pickPath()
		} else {
			c.Op, c.Path, c.NewName = "RenameKey", pickPath(), r.pick([]string{"", "a", "a.b", "*", "n[0]", "."})
		}
	default:
		c.Op = "NewMap"
		n := 1 + r.Intn(3)
		for i := 0; i < n; i++ {
			if r.chance(0.6) {
				c.Pairs = append(c.Pairs, r.pick(hostilePairs))
			} else {
				c.Pairs = append(c.Pairs, pickPath()+":"+r.pick([]string{"x", "x.y", "a.b.c", ""}))
			}
		}
	}
	return c
}

// firstDocOK: does encoding/xml's (strict) tokenizer deliver a complete first root element?
func firstDocOK(doc []byte) bool {
	d := xml.NewDecoder(bytes.NewReader(doc))
	depth := 0
	for {
		t, err := d.Token()
		if err != nil {
			return false
		}
		switch t.(type) {
		case xml.StartElement:
			depth++
		case xml.EndElement:
			depth--
			if depth == 0 {
				return true
			}
		}
	}
}

type decRes struct {
	name string
	o    Outcome
	m    interface{} // the Map / MapSeq returned (possibly with an error)
}

func isEmptyMap(v interface{}) bool {
	switch x := v.(type) {
	case nil:
		return true
	case mxj.Map:
		return len(x) == 0
	case mxj.MapSeq:
		return len(x) == 0
	case map[string]interface{}:
		return len(x) == 0
	}
	return false
}

// withTimeout runs f in a goroutine; ok=false when it does not return in time.
func withTimeout(d time.Duration, f func() decRes) (decRes, bool) {
	ch := make(chan decRes, 1)
	go func() { ch <- f() }()
	select {
	case r := <-ch:
		return r, true
	case <-time.After(d):
		return decRes{}, false
	}
}

// runDecoders feeds the bytes to every decoder entry point.
func runDecoders(b []byte) []func() decRes {
	mk := func(name string, f func() (interface{}, error)) func() decRes {
		return func() decRes {
			var m interface{}
			o := protect(func() Outcome {
				v, err := f()
				m = v
				return Outcome{Err: err}
			})
			return decRes{name: name, o: o, m: m}
		}
	}
	return []func() decRes{
		mk("NewMapXml", func() (interface{}, error) { m, e := mxj.NewMapXml(b); return m, e }),
		mk("NewMapXmlCast", func() (interface{}, error) { m, e := mxj.NewMapXml(b, true); return m, e }),
		mk("NewMapXmlReader", func() (interface{}, error) { m, e := mxj.NewMapXmlReader(bytes.NewReader(b)); return m, e }),
		mk("NewMapXmlReaderRaw", func() (interface{}, error) { m, _, e := mxj.NewMapXmlReaderRaw(bytes.NewReader(b)); return m, e }),
		mk("NewMapXmlSeq", func() (interface{}, error) { m, e := mxj.NewMapXmlSeq(b); return m, e }),
		mk("NewMapXmlSeqCast", func() (interface{}, error) { m, e := mxj.NewMapXmlSeq(b, true); return m, e }),
		mk("NewMapXmlSeqReader", func() (interface{}, error) { m, e := mxj.NewMapXmlSeqReader(bytes.NewReader(b)); return m, e }),
		mk("NewMapXmlSeqReaderRaw", func() (interface{}, error) { m, _, e := mxj.NewMapXmlSeqReaderRaw(bytes.NewReader(b)); return m, e }),
		mk("NewMapFormattedXmlSeq", func() (interface{}, error) { m, e := mxj.NewMapFormattedXmlSeq(b); return m, e }),
		mk("BeautifyXml", func() (interface{}, error) { _, e := mxj.BeautifyXml(b, "", " "); return nil, e }),
		mk("NewMapJson", func() (interface{}, error) { m, e := mxj.NewMapJson(b); return m, e }),
		mk("NewMapJsonReader", func() (interface{}, error) { m, e := mxj.NewMapJsonReader(bytes.NewReader(b)); return m, e }),
		mk("NewMapJsonReaderRaw", func() (interface{}, error) { m, _, e := mxj.NewMapJsonReaderRaw(bytes.NewReader(b)); return m, e }),
		mk("NewMapGob", func() (interface{}, error) { m, e := mxj.NewMapGob(b); return m, e }),
		mk("HandleXmlReader", func() (interface{}, error) {
			n := 0
			e := mxj.HandleXmlReader(bytes.NewReader(b), func(mxj.Map) bool { n++; return n < 50 }, func(error) bool { return false })
			return nil, e
		}),
		mk("HandleJsonReader", func() (interface{}, error) {
			n := 0
			e := mxj.HandleJsonReader(bytes.NewReader(b), func(mxj.Map) bool { n++; return n < 50 }, func(error) bool { return false })
			return nil, e
		}),
	}
}

// encodeBack: every Map produced by a decoder can be passed to the corresponding encoder without a panic.
func encodeBack(name string, m interface{}) (string, bool) {
	o := protect(func() Outcome {
		switch x := m.(type) {
		case mxj.Map:
			if x == nil {
				return Outcome{}
			}
			x.Xml()
			x.XmlIndent("", " ")
			x.Json()
			x.LeafPaths()
		case mxj.MapSeq:
			if x == nil {
				return Outcome{}
			}
			x.Xml()
			x.XmlIndent("", " ")
		}
		return Outcome{}
	})
	return o.PanicMsg, !o.Panicked
}

type c15Out struct {
	Terms      []string    `json:"terms"`  // XDec (group 0) or kv (group 1) term, "" when the case has no model term
	Groups     []int       `json:"groups"` // 0 = xml decoder case, 1 = tree-walker case
	Inputs     []c15Case   `json:"inputs"`
	Impl       []string    `json:"impl"`
	Nontrivial []bool      `json:"nontrivial"`
	Violations []Violation `json:"violations"`
	Counts     map[string]int
	Evals      int
}

// c15Worker runs cases [from, len) of the batch file, appending its progress to the progress file.
func c15Worker(in, out string) error {
	raw, err := os.ReadFile(in)
	if err != nil {
		return err
	}
	var batch struct {
		From  int       `json:"from"`
		Cases []c15Case `json:"cases"`
	}
	if err := json.Unmarshal(raw, &batch); err != nil {
		return err
	}
	res := c15Out{Counts: map[string]int{}}
	flush := func() {
		b, _ := json.Marshal(res)
		os.WriteFile(out+".tmp", b, 0o644)
		os.Rename(out+".tmp", out)
	}
	viol := func(key, what string, c c15Case, got, want string) {
		res.Violations = append(res.Violations, Violation{Key: key, What: what, Input: c, Got: got, Want: want})
	}
	for i := batch.From; i < len(batch.Cases); i++ {
		c := batch.Cases[i]
		os.WriteFile(out+".progress", []byte(fmt.Sprint(i)), 0o644)
		switch c.Kind {
		case "keyprefix":
			// the sequence codec under another (documented: single punctuation character) prefix of the generated keys:
			// element names that then EQUAL a generated key (_comment, _attr, _procinst ...) must not make the encoder panic
			b := c.bytes()
			res.Counts["keyprefix:"+c.Pfx]++
			mxj.SetGlobalKeyMapPrefix(c.Pfx)
			r, done := withTimeout(10*time.Second, func() decRes {
				var m interface{}
				o := protect(func() Outcome { v, err := mxj.NewMapXmlSeq(b); m = v; return Outcome{Err: err} })
				return decRes{name: "NewMapXmlSeq", o: o, m: m}
			})
			res.Evals++
			if !done {
				viol("hang", "a decoder did not return within 10 s", c, "no result", "a Map or an error")
			} else if r.o.Panicked {
				viol("panic:NewMapXmlSeq:keyprefix", "the sequence decoder panicked under a non-default key prefix", c, r.o.PanicMsg, "a Map or an error")
			} else if r.o.Err == nil && r.m != nil {
				if msg, ok := encodeBack(r.name, r.m); !ok {
					viol("seq-keyprefix-name-collision", "under SetGlobalKeyMapPrefix an element named like a generated key makes MapSeq.Xml / XmlIndent panic on the decoder's own output", c, msg, "no panic")
				}
			}
			mxj.SetGlobalKeyMapPrefix("#")
		case "bytes":
			b := c.bytes()
			okXML := firstDocOK(b)
			res.Counts["bytes"]++
			if okXML {
				res.Counts["bytes:xml-first-doc-ok"]++
			}
			implText := []string{}
			for _, f := range runDecoders(b) {
				r, done := withTimeout(10*time.Second, f)
				res.Evals++
				if !done {
					viol("hang", "a decoder did not return within 10 s", c, "no result", "a Map or an error")
					continue
				}
				implText = append(implText, r.name+":"+errClass(r.o.Err))
				if r.o.Panicked {
					viol("panic:"+r.name, "a decoder panicked", c, r.o.PanicMsg, "a Map or an error")
					continue
				}
				// fails exactly when the tokenizer rejects the first document (Map codec, strict tokenizer)
				switch r.name {
				case "NewMapXml", "NewMapXmlCast", "NewMapXmlReader", "NewMapXmlReaderRaw":
					if (r.o.Err == nil) != okXML {
						viol("accepts-iff-tokenizer:"+r.name, "the decoder's verdict differs from the tokenizer's on the first document", c,
							"err="+fmt.Sprint(r.o.Err), fmt.Sprintf("tokenizer accepts first document: %v", okXML))
					}
				}
				// no partial Map together with an error (the sequence decoder's documented no-root result aside)
				if r.o.Err != nil && !isEmptyMap(r.m) && r.o.Err != mxj.NoRoot {
					viol("partial-map-with-error:"+r.name, "an error is returned together with a non-empty Map", c, canon(r.m), "no Map")
				}
				if r.o.Err == nil && r.m != nil {
					if msg, ok := encodeBack(r.name, r.m); !ok {
						viol("decoded-map-unencodable:"+r.name, "a Map produced by the decoder makes the corresponding encoder panic", c, msg, "no panic")
					}
				}
			}
			// correspondence with the model of the Map decoder on the real token stream
			dc := xmlDecCase{Kind: "decode", Opts: defaultXOpts(), Cast: i%2 == 0, Doc: string(b)}
			o, term := dc.run()
			res.Terms = append(res.Terms, term)
			res.Groups = append(res.Groups, 0)
			res.Inputs = append(res.Inputs, c)
			res.Impl = append(res.Impl, strings.Join(implText, " ")+" | "+o.text())
			res.Nontrivial = append(res.Nontrivial, !okXML && len(b) > 3)
		case "args":
			kc := *c.KV
			res.Counts["args:"+kc.Op]++
			type kvr struct {
				o     Outcome
				after map[string]interface{}
			}
			ch := make(chan kvr, 1)
			go func() { o, a := runKV(kc); ch <- kvr{o, a} }()
			var r kvr
			select {
			case r = <-ch:
			case <-time.After(10 * time.Second):
				viol("hang:"+kc.Op, "the call did not return within 10 s", c, "no result", "a result or an error")
				continue
			}
			res.Evals++
			if r.o.Panicked {
				viol("panic:"+kc.Op, "a query / update method panicked on an argument string", c, r.o.PanicMsg, "a result or an error")
			}
			if r.o.Err != nil {
				res.Counts["args:error"]++
				switch kc.Op {
				case "UpdateValuesForPath", "SetValueForPath", "Remove", "RenameKey":
					if canon(r.after) != canon(kc.Map) {
						viol("error-modified:"+kc.Op, "an error was returned but the Map was modified", c, canon(r.after), canon(kc.Map))
					}
				}
			}
			ordered := !pathHasStar(kc.Path)
			switch kc.Op {
			case "LeafNodes", "LeafPaths", "LeafValues", "ValuesForKey", "PathsForKey", "PathForKeyShortest", "UpdateValuesForPath", "SetValueForPath", "Remove", "RenameKey":
				ordered = false // result order is map-iteration order
			case "NewMap":
				star := false
				for _, p := range kc.Pairs {
					if pathHasStar(strings.SplitN(p, ":", 2)[0]) {
						star = true
					}
				}
				if star && len(kc.Pairs) > 1 {
					// lists filled in map-iteration order and then nested by a later pair: no canonical observable
					res.Counts["args:newmap-wildcard-overlap(no model term)"]++
					continue
				}
				ordered = !star
			}
			if pathHasStar(kc.Path) && (kc.Op == "SetValueForPath" || kc.Op == "Remove" || kc.Op == "RenameKey" || kc.Op == "ValueForPath") {
				// which of several matches is taken depends on map iteration: no deterministic observable to compare
				res.Counts["args:single-result-on-wildcard(no model term)"]++
				continue
			}
			if kc.Op == "NewMap" {
				skip := false
				for _, p := range kc.Pairs {
					old := strings.SplitN(p, ":", 2)[0]
					if keys, okp := specParse(old); (okp && hasIndexOnStar(keys)) || (!okp && pathHasStar(old) && strings.Contains(old, "[")) {
						skip = true
					}
				}
				if skip {
					// an index on a wildcard step of an old path selects by map-iteration order
					res.Counts["args:newmap-index-on-wildcard(no model term)"]++
					continue
				}
			}
			if keys, okp := specParse(kc.Path); (okp && hasIndexOnStar(keys)) || (!okp && pathHasStar(kc.Path) && strings.Contains(kc.Path, "[")) {
				// an index on a wildcard step selects by map-iteration order: no deterministic observable to compare
				res.Counts["args:index-on-wildcard(no model term)"]++
				continue
			}
			res.Terms = append(res.Terms, kc.term(ordered, r.o, r.after))
			res.Groups = append(res.Groups, 1)
			res.Inputs = append(res.Inputs, c)
			res.Impl = append(res.Impl, r.o.text())
			res.Nontrivial = append(res.Nontrivial, r.o.Err != nil)
		}
		if i%50 == 0 {
			flush()
		}
	}
	os.WriteFile(out+".progress", []byte("done"), 0o644)
	flush()
	return nil
}

func init() {
	props["C15"] = runC15
	replays["C15"] = func(raw []byte) error {
		var c c15Case
		if err := json.Unmarshal(raw, &c); err != nil {
			return err
		}
		if c.Kind == "args" && c.KV != nil {
			o, after := runKV(*c.KV)
			fmt.Printf("input:  %s\nresult: %s\nafter:  %s\n", mustJSON(c.KV), o.text(), canon(after))
			return nil
		}
		b := c.bytes()
		fmt.Printf("input: %q\ntokenizer accepts the first document: %v\n", b, firstDocOK(b))
		for _, f := range runDecoders(b) {
			r, done := withTimeout(10*time.Second, f)
			if !done {
				fmt.Println("  HANG")
				continue
			}
			fmt.Printf("  %-24s %s map=%s\n", r.name, r.o.text(), canon(r.m))
		}
		return nil
	}
}

func hexIfNeeded(b []byte) (string, bool) {
	s := string(b)
	if json.Valid([]byte(`"`+strings.NewReplacer(`\`, `\\`, `"`, `\"`).Replace(s)+`"`)) && !strings.ContainsRune(s, 0xfffd) && isUTF8(b) {
		return s, false
	}
	return fmt.Sprintf("%x", b), true
}

func isUTF8(b []byte) bool {
	for _, r := range string(b) {
		if r == 0xfffd {
			return false
		}
	}
	for _, c := range b {
		if c < 0x20 && c != '\n' && c != '\t' && c != '\r' {
			return false
		}
	}
	return true
}

func runC15(cfg runCfg) error {
	// worker mode: -out names the result file, -corpus (re-used) names the batch file
	if cfg.tier == "worker" {
		return c15Worker(corpusDir, cfg.out)
	}
	r := newRng(cfg.seed)
	var cases []c15Case
	addBytes := func(b []byte) {
		s, hx := hexIfNeeded(b)
		cases = append(cases, c15Case{Kind: "bytes", Input: s, Hex: hx})
	}
	// every truncation of the short documents
	for _, d := range append(append([]string{}, c15Docs...), c15Json...) {
		for i := 0; i <= len(d); i++ {
			addBytes([]byte(d[:i]))
		}
	}
	nb := cfg.n / 2
	for len(cases) < nb {
		var base []byte
		switch r.Intn(4) {
		case 0:
			base = []byte(r.pick(c15Json))
		case 1:
			dc := docCfg{maxDepth: 2, maxFan: 3, mixedText: true, noise: true, texts: textPool}
			base = []byte(r.renderDoc(r.genElem(dc, 0), dc))
		default:
			base = []byte(r.pick(c15Docs))
		}
		n := 1 + r.Intn(3)
		for j := 0; j < n; j++ {
			base = r.corrupt(base)
		}
		addBytes(base)
	}
	for len(cases) < cfg.n {
		cases = append(cases, c15Case{Kind: "args", KV: r.genC15Args()})
	}
	// generated keys that are legal element names (key prefix "_"): documents whose element names collide with them
	for _, pfx := range []string{"_", "#"} {
		for _, d := range []string{"<%scomment><a/></%scomment>", "<r><%sattr><x/></%sattr></r>", "<r><%sprocinst>x</%sprocinst><b/></r>",
			"<r><%stext>t</%stext><%sseq>1</%sseq></r>", "<r %sk=\"v\"><!-- c --><?pi d?><b>1</b></r>"} {
			cases = append(cases, c15Case{Kind: "keyprefix", Pfx: pfx, Input: strings.ReplaceAll(d, "%s", pfx)})
		}
	}

	// ---- run in worker processes, restarting after a crash
	if err := os.MkdirAll(cfg.out, 0o755); err != nil {
		return err
	}
	batchFile := filepath.Join(cfg.out, "batch.json")
	resFile := filepath.Join(cfg.out, "batch.out")
	half := cfg.shards / 2
	if half == 0 {
		half = 1
	}
	run := newRun("C15", cfg.out, cfg.seed, 2*half, "", "",
		"byte inputs: every truncation of 28 short XML / JSON documents, 1-3 local corruptions (replace / delete / insert / duplicate / stray end tag, brace, "+
			"comment or CDATA opener, NUL and invalid UTF-8 bytes) of short and generated documents, each fed to 16 decoder entry points (XML, sequence-XML, JSON, reader, raw, bulk, gob, BeautifyXml) "+
			"in a worker process under a 10 s timeout; argument strings: hostile paths (empty segments, negative / huge / malformed indexes, unmatched brackets), sub-keys, key pairs and new values "+
			"on random Maps with odd and empty keys for every query and update method; non-trivial = rejected input / error result; distinct by input hash")
	run.headers = make([]string, 2*half)
	run.types = make([]string, 2*half)
	for i := 0; i < 2*half; i++ {
		if i < half {
			run.headers[i], run.types[i] = xmlHeader, "xcase"
		} else {
			run.headers[i], run.types[i] = kvHeader, "case"
		}
	}
	from := 0
	crashes := 0
	for from < len(cases) && crashes < 20 {
		b, _ := json.Marshal(map[string]interface{}{"from": from, "cases": cases})
		os.WriteFile(batchFile, b, 0o644)
		os.Remove(resFile)
		os.Remove(resFile + ".progress")
		cmd := exec.Command(os.Args[0], "-prop", "C15", "-tier", "worker", "-corpus", batchFile, "-out", resFile)
		var stderr bytes.Buffer
		cmd.Stderr = &stderr
		cmd.Stdout = io.Discard
		werr := cmd.Run()
		var res c15Out
		if rb, err := os.ReadFile(resFile); err == nil {
			json.Unmarshal(rb, &res)
		}
		for k, v := range res.Counts {
			run.sum.Dist[k] += v
		}
		run.sum.OracleEvals += res.Evals
		for _, v := range res.Violations {
			run.violation(v)
		}
		for i, t := range res.Terms {
			run.addIn(res.Groups[i], half, t, res.Inputs[i], res.Impl[i], res.Nontrivial[i])
		}
		prog, _ := os.ReadFile(resFile + ".progress")
		if werr == nil && string(prog) == "done" {
			break
		}
		// the worker died: the case it was running is the culprit
		crashes++
		at := from
		fmt.Sscan(string(prog), &at)
		msg := stderr.String()
		if len(msg) > 1500 {
			msg = msg[:700] + " ... " + msg[len(msg)-700:]
		}
		if at < len(cases) {
			run.violation(Violation{Key: "process-crash", What: "the implementation killed the process (fatal error, e.g. stack overflow) or the worker failed", Input: cases[at],
				Got: fmt.Sprint(werr) + ": " + msg, Want: "a result or an error"})
		}
		// results of the cases the dead worker had finished but not flushed are lost; continue after the culprit
		from = at + 1
	}
	run.sum.Dist["worker-crashes"] = crashes
	return run.finish()
}
