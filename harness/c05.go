package main

import (
	"encoding/json"
	"encoding/xml"
	"fmt"
	"strings"
	"unicode/utf8"

	mxj "github.com/clbanning/mxj/v2"
)

// C05 - special characters survive encoding; invalid output is an error, never silent.
//
// Correspondence (Run/RunEsc.v): escapeChars through the verif hook (all 256 single bytes, random
// strings), the two escaping setters (state through VerifOptionState), Map.Xml bytes under the three
// escaping modes with and without the validity check (XEnc), NewMapXml under decoder-side escaping (XDec).
// Oracle: the property statement on the four encoders x three escaping modes x check on/off.
// The MapSeq codec is modelled by C04; here it is covered by the oracle only.

const c05EscHeader = "From Mxj Require Import Run.RunEsc.\nLocal Open Scope string_scope.\n"

// ---------------------------------------------------------------- strings over the hazardous alphabet

var c05EscPieces = []string{"&", "<", ">", "\"", "'", "&amp;", "&#x41;", "&lt;", "&#65;", "&gt;", "&quot;", "&apos;", "]]>", "<![CDATA[", "]]", "&&", "<<",
	"a", "b c", " ", "é", "€", "\n", "\t", "x", "1", ";", "#", "amp;", "&amp", "--", "<!--", "-->", "?>", "<?", "/>", "</e>", "<e>", "=", "&#", "&x;", "日本"}

func (r *Rng) c05GenEscString() string {
	n := r.Intn(6)
	if r.chance(0.1) {
		n = 0
	}
	var sb strings.Builder
	for i := 0; i < n; i++ {
		sb.WriteString(r.pick(c05EscPieces))
	}
	return sb.String()
}

const c05XmlTrimSet = "\t\r\b\n "

// ---------------------------------------------------------------- abstract documents whose values are such strings

type c05ENode struct {
	Name  string      `json:"name"`
	Attrs [][2]string `json:"attrs,omitempty"`
	Text  *string     `json:"text,omitempty"`
	Kids  []*c05ENode `json:"kids,omitempty"`
}

func (r *Rng) c05GenENode(name string, depth int) *c05ENode {
	n := &c05ENode{Name: name}
	names := []string{"a", "b", "id"}
	na := r.Intn(3)
	for i := 0; i < na && i < len(names); i++ {
		if r.chance(0.7) {
			n.Attrs = append(n.Attrs, [2]string{names[i], r.c05GenEscString()})
		}
	}
	if r.chance(0.7) {
		t := r.c05GenEscString()
		n.Text = &t
	}
	if depth < 2 && r.chance(0.6) {
		nk := 1 + r.Intn(3)
		for i := 0; i < nk; i++ {
			n.Kids = append(n.Kids, r.c05GenENode(r.pick([]string{"e", "f", "e", "g"}), depth+1))
		}
	}
	return n
}

// mixed: some element has a text entry beside child elements (strict: a text that survives trimming).
func (n *c05ENode) mixed(strict bool) bool {
	if n.Text != nil && len(n.Kids) > 0 && (!strict || strings.Trim(*n.Text, c05XmlTrimSet) != "") {
		return true
	}
	for _, k := range n.Kids {
		if k.mixed(strict) {
			return true
		}
	}
	return false
}

func (n *c05ENode) allStrings(f func(string)) {
	for _, a := range n.Attrs {
		f(a[1])
	}
	if n.Text != nil {
		f(*n.Text)
	}
	for _, k := range n.Kids {
		k.allStrings(f)
	}
}

// text returns the text value: trimmed when trim is set (the documented trimming), "" and false when absent.
func (n *c05ENode) text(trim bool) (string, bool) {
	if n.Text == nil {
		return "", false
	}
	if trim {
		t := strings.Trim(*n.Text, c05XmlTrimSet)
		return t, t != ""
	}
	return *n.Text, true
}

func c05Group(kids []*c05ENode, form func(*c05ENode, int) interface{}, m map[string]interface{}, first int) {
	for i, k := range kids {
		v := form(k, first+i)
		if old, ok := m[k.Name]; ok {
			if l, isl := old.(groupedList); isl {
				m[k.Name] = append(l, v)
			} else {
				m[k.Name] = groupedList{old, v}
			}
		} else {
			m[k.Name] = v
		}
	}
	for k, v := range m {
		m[k] = ungroup(v)
	}
}

// c05MapForm: the Map that stands for the document under the default conventions (attribute prefix "-", text key "#text").
func c05MapForm(n *c05ENode, trim bool, xf func(string) string) interface{} {
	t, hasT := n.text(trim)
	if len(n.Attrs) == 0 && len(n.Kids) == 0 {
		if hasT {
			return xf(t)
		}
		return ""
	}
	m := map[string]interface{}{}
	for _, a := range n.Attrs {
		m["-"+a[0]] = xf(a[1])
	}
	if hasT {
		m["#text"] = xf(t)
	}
	c05Group(n.Kids, func(k *c05ENode, _ int) interface{} { return c05MapForm(k, trim, xf) }, m, 0)
	return m
}

// c05SeqForm: the MapSeq that stands for the document (text first, then the children, in order).
func c05SeqForm(n *c05ENode, seq int, trim bool, xf func(string) string) interface{} {
	m := map[string]interface{}{"#seq": seq}
	if len(n.Attrs) > 0 {
		am := map[string]interface{}{}
		for i, a := range n.Attrs {
			am[a[0]] = map[string]interface{}{"#text": xf(a[1]), "#seq": i}
		}
		m["#attr"] = am
	}
	t, hasT := n.text(trim)
	first := 0
	if hasT {
		m["#text"] = xf(t)
		first = 1
	} else if len(n.Attrs) == 0 && len(n.Kids) == 0 {
		m["#text"] = ""
	}
	c05Group(n.Kids, func(k *c05ENode, i int) interface{} { return c05SeqForm(k, i, trim, xf) }, m, first)
	return m
}

// c05SeqRoot: NewMapXmlSeq returns an empty root element as the empty string (there is no parent to wrap it).
func c05SeqRoot(n *c05ENode, trim bool, xf func(string) string) interface{} {
	if _, hasT := n.text(trim); !hasT && len(n.Attrs) == 0 && len(n.Kids) == 0 {
		return ""
	}
	return c05SeqForm(n, 0, trim, xf)
}

func c05StripSeq(v interface{}) interface{} {
	switch x := v.(type) {
	case map[string]interface{}:
		m := map[string]interface{}{}
		for k, e := range x {
			if k != "#seq" {
				m[k] = c05StripSeq(e)
			}
		}
		return m
	case []interface{}:
		l := make([]interface{}, len(x))
		for i, e := range x {
			l[i] = c05StripSeq(e)
		}
		return l
	}
	return v
}

// c05RenderE writes the document as XML text, values escaped the standard way.
func c05RenderE(n *c05ENode, sb *strings.Builder) {
	sb.WriteString("<" + n.Name)
	for _, a := range n.Attrs {
		sb.WriteString(" " + a[0] + `="` + xmlEscAttr(a[1], '"') + `"`)
	}
	sb.WriteString(">")
	if n.Text != nil {
		sb.WriteString(xmlEscText(*n.Text))
	}
	for _, k := range n.Kids {
		c05RenderE(k, sb)
	}
	sb.WriteString("</" + n.Name + ">")
}

// ---------------------------------------------------------------- running the encoders

var c05EncNames = []string{"Map.Xml", "Map.XmlIndent", "MapSeq.Xml", "MapSeq.XmlIndent"}

func c05EncodeWith(o xOpts, enc int, v map[string]interface{}) Outcome {
	v = deepCopy(v).(map[string]interface{})
	o.apply()
	defer restoreDefaults()
	// every other call encodes the same Map value twice and reports the second result: what an encoder
	// writes may not depend on the value having been encoded before (seed C05-8: the escaped text stored back)
	applyCount++
	twice := hash64(fmt.Sprint("c05enc", applyCount))%2 == 0
	return protect(func() Outcome {
		var b []byte
		var err error
		if twice {
			switch enc {
			case 0, 1:
				mxj.Map(v).Xml()
			default:
				mxj.MapSeq(v).Xml()
			}
		}
		switch enc {
		case 0:
			b, err = mxj.Map(v).Xml()
		case 1:
			b, err = mxj.Map(v).XmlIndent("", "  ")
		case 2:
			b, err = mxj.MapSeq(v).Xml()
		default:
			b, err = mxj.MapSeq(v).XmlIndent("", "  ")
		}
		if err != nil {
			return Outcome{Err: err}
		}
		return Outcome{Ret: b}
	})
}

func c05DecodeWith(o xOpts, seq bool, doc []byte) Outcome {
	if seq {
		return c14DecodeSeq(o, doc, false)
	}
	return decodeXml(o, doc, false)
}

// c05WellFormed: the real tokenizer reads the bytes to the end without error and sees exactly one root element.
func c05WellFormed(b []byte) (bool, string) {
	ts, err := tokenize(b, false)
	if err != nil {
		return false, err.Error()
	}
	depth, roots := 0, 0
	for _, t := range ts {
		switch t.Kind {
		case "start":
			if depth == 0 {
				roots++
			}
			depth++
		case "end":
			depth--
		case "char":
			if depth == 0 && strings.Trim(t.Data, c05XmlTrimSet) != "" {
				return false, "character data outside the root element"
			}
		}
	}
	if roots != 1 {
		return false, fmt.Sprintf("%d root elements", roots)
	}
	return true, ""
}

func c05ModeOpts(mode int, chk bool) xOpts {
	o := defaultXOpts()
	o.Esc = mode == 1
	o.EscDec = mode == 2
	o.Chk = chk
	return o
}

var c05ModeNames = []string{"off", "encoder", "decoder"}

// ---------------------------------------------------------------- cases

type c05EscCallJ struct {
	Dec bool  `json:"decoder"` // XMLEscapeCharsDecoder, else XMLEscapeChars
	Arg *bool `json:"arg"`     // nil = called without argument
}

type c05Case struct {
	Kind  string        `json:"kind"` // "doc", "esc", "set"
	Doc   *c05ENode     `json:"doc,omitempty"`
	Enc   string        `json:"encoder,omitempty"`
	Mode  string        `json:"mode,omitempty"`
	Chk   bool          `json:"check,omitempty"`
	X     string        `json:"x,omitempty"`
	XHex  string        `json:"x_hex,omitempty"`
	Init  [2]bool       `json:"init,omitempty"`
	Calls []c05EscCallJ `json:"calls,omitempty"`
}

func c05EscKey(enc int, what string) string {
	return strings.ToLower(strings.ReplaceAll(c05EncNames[enc], ".", "-")) + ":" + what
}

// c05Doc evaluates the property on one document for the four encoders x three modes x check on/off,
// and emits correspondence cases for Map.Xml and NewMapXml.
func c05Doc(run *Run, r *Rng, n *c05ENode, fixed bool) {
	mixed := n.mixed(true)
	id := func(s string) string { return s }
	mapV := map[string]interface{}{n.Name: c05MapForm(n, false, id)}
	seqV := map[string]interface{}{n.Name: c05SeqForm(n, 0, false, id)}
	wantMap := canon(map[string]interface{}{n.Name: c05MapForm(n, true, id)})
	wantSeq := canon(c05StripSeq(map[string]interface{}{n.Name: c05SeqRoot(n, true, id)}))
	var sb strings.Builder
	c05RenderE(n, &sb)
	docText := sb.String()
	special := false
	n.allStrings(func(s string) {
		if strings.ContainsAny(s, "&<>\"'") {
			special = true
		}
	})
	if mixed {
		run.count("doc:mixed-content")
	}
	if special {
		run.count("doc:with-special-characters")
	} else {
		run.count("doc:plain")
	}

	for enc := 0; enc < 4; enc++ {
		seq := enc >= 2
		for mode := 0; mode < 3; mode++ {
			for _, chk := range []bool{false, true} {
				o := c05ModeOpts(mode, chk)
				c := c05Case{Kind: "doc", Doc: n, Enc: c05EncNames[enc], Mode: c05ModeNames[mode], Chk: chk}
				vio := func(key, what, got, want string) {
					run.violation(Violation{Key: key, What: c05EncNames[enc] + ", escaping " + c05ModeNames[mode] + fmt.Sprintf(", check %v: ", chk) + what, Input: c, Got: got, Want: want})
				}
				run.sum.OracleEvals++
				// the value handed to the encoder
				val := mapV
				if seq {
					val = seqV
				}
				var plainOrig Outcome
				if mode == 2 {
					// decoder-side mode: the Map comes from decoding the document with escaping in the decoder
					d := c05DecodeWith(o, seq, []byte(docText))
					plainOrig = c05DecodeWith(c05ModeOpts(0, false), seq, []byte(docText))
					if d.Panicked || d.Err != nil || plainOrig.Panicked || plainOrig.Err != nil {
						vio(c05EscKey(enc, "decode-fails"), "a well-formed document does not decode", d.text()+" / "+plainOrig.text(), "a Map")
						continue
					}
					val = d.Ret.(map[string]interface{})
					// the decoded values are the escaped token texts
					var wantEsc string
					if seq {
						wantEsc = canon(c05StripSeq(map[string]interface{}{n.Name: c05SeqRoot(n, true, specEscape)}))
					} else {
						wantEsc = canon(map[string]interface{}{n.Name: c05MapForm(n, true, specEscape)})
					}
					got := canon(val)
					if seq {
						got = canon(c05StripSeq(val))
					}
					if got != wantEsc {
						vio(c05EscKey(enc, "decoder-escape-differs"), "decoding with XMLEscapeCharsDecoder does not give the escaped values", got, wantEsc)
					}
				}
				out := c05EncodeWith(o, enc, val)
				if mode == 0 && chk {
					// the verdict of the validity check must not depend on how the user configured DECODING:
					// a lenient CustomDecoder (Strict: false) is for reading sloppy input, not for what Xml() may return
					mxj.CustomDecoder = &xml.Decoder{Strict: false}
					out2 := c05EncodeWith(o, enc, val)
					mxj.CustomDecoder = nil
					if !out2.Panicked && out2.Err == nil {
						if ok2, why2 := c05WellFormed(out2.Ret.([]byte)); !ok2 {
							if _, terr := tokenize(out2.Ret.([]byte), false); terr != nil {
								vio(c05EscKey(enc, "ill-formed-output-nil-error-customdecoder"), "with a non-strict CustomDecoder set: nil error but the output is not well formed ("+why2+")",
									string(out2.Ret.([]byte)), "an error or well-formed XML")
							}
						}
					}
				}
				if out.Panicked {
					key := c05EscKey(enc, "panic")
					vio(key, "the encoder panicked", out.text(), "bytes or an error")
					continue
				}
				if out.Err != nil {
					if mode != 0 {
						vio(c05EscKey(enc, "error-with-escaping"), "the encoder fails although escaping is on", out.Err.Error(), "well-formed XML")
					} else if !chk {
						vio(c05EscKey(enc, "error-without-check"), "the encoder fails although the check is off", out.Err.Error(), "bytes")
					}
					run.count("outcome:error")
					continue
				}
				b := out.Ret.([]byte)
				ok, why := c05WellFormed(b)
				if ok {
					run.count("outcome:well-formed")
				} else {
					run.count("outcome:ill-formed")
				}
				switch mode {
				case 0:
					// escaping off: with the check on a nil error implies well-formed output
					if chk && !ok {
						key := c05EscKey(enc, "ill-formed-output-nil-error")
						if _, terr := tokenize(b, false); terr == nil {
							// the tokenizer reads the bytes to the end (so the encoder's check passes), yet they are
							// not a well-formed document: content after the root element
							key = "content-after-root-accepted"
						}
						vio(key, "nil error but the output is not well formed ("+why+")", string(b), "an error or well-formed XML")
					}
				case 1:
					if !ok {
						vio(c05EscKey(enc, "escaped-output-ill-formed"), "output is not well formed ("+why+")", string(b), "well-formed XML")
						break
					}
					d := c05DecodeWith(c05ModeOpts(0, false), seq, b)
					want := wantMap
					got := ""
					if d.Err == nil && !d.Panicked {
						got = canon(d.Ret)
						if seq {
							got = canon(c05StripSeq(d.Ret))
							want = wantSeq
						}
					}
					if got != want {
						key := c05EscKey(enc, "value-not-recovered")
						if strings.Contains(got, "&amp;") && !strings.Contains(want, "&amp;") || strings.Contains(got, "&amp;amp;") && !strings.Contains(want, "&amp;amp;") {
							key = c05EscKey(enc, "double-escaped")
						}
						vio(key, "decoding the output does not give back exactly the values (up to trimming of element text)", d.text(), want)
					}
				case 2:
					if !ok {
						vio(c05EscKey(enc, "reencoded-output-ill-formed"), "decode then encode gives ill-formed output ("+why+")", string(b), "well-formed XML")
						break
					}
					// decode followed by encode reproduces the original escaped values: the output denotes the same values as the original document
					d := c05DecodeWith(c05ModeOpts(0, false), seq, b)
					got, want := "", canon(plainOrig.Ret)
					if d.Err == nil && !d.Panicked {
						got = canon(d.Ret)
					}
					if seq {
						want = canon(c05StripSeq(plainOrig.Ret))
						if d.Err == nil && !d.Panicked {
							got = canon(c05StripSeq(d.Ret))
						}
					}
					if got != want {
						vio(c05EscKey(enc, "decoder-mode-not-reproduced"), "decode (escaping in the decoder) then encode does not reproduce the original values", d.text(), want)
					}
				}
			}
		}
	}

	// ---- correspondence: Map.Xml under a random mode / check, and the decoder under decoder-side escaping
	mode, chk := r.Intn(3), r.chance(0.5)
	if fixed {
		mode, chk = 0, true // the regression documents: escaping off, check on
	}
	o := c05ModeOpts(mode, chk)
	val := mapV
	if mode == 2 {
		d := decodeXml(o, []byte(docText), false)
		ts, terr := tokenize([]byte(docText), false)
		term := fmt.Sprintf("EX (XDec %s false %s [] %s %s %s)", o.coq(), pfTable(castCands(ts)), coqToks(ts), coqTerm(terr), xoutRet(d))
		run.add(term, c05Case{Kind: "doc", Doc: n, Enc: "NewMapXml", Mode: c05ModeNames[mode]}, d.text(), special)
		run.count("case:XDec-decoder-escaping")
		if m, ok := d.Ret.(map[string]interface{}); ok {
			val = m
		}
	}
	unchecked := c05EncodeWith(c05ModeOpts(mode, false), 0, val)
	accept := false
	if b, ok := unchecked.Ret.([]byte); ok && unchecked.Err == nil {
		_, err := tokenize(b, false)
		accept = err == nil
	}
	out := c05EncodeWith(o, 0, val)
	term := fmt.Sprintf("EX (XEnc %s %s None %s %s)", o.coq(), coqVal(val), coqBool(accept), xoutBytes(out))
	run.add(term, c05Case{Kind: "doc", Doc: n, Enc: c05EncNames[0], Mode: c05ModeNames[mode], Chk: chk}, out.text(), special)
	run.count(fmt.Sprintf("case:XEnc-%s-check-%v-accept-%v", c05ModeNames[mode], chk, accept))
}

// c05Esc: escapeChars on one string.
func c05Esc(run *Run, x string, cat string) {
	c := c05Case{Kind: "esc", X: x}
	if !utf8.ValidString(x) || !plainASCII(x) {
		c = c05Case{Kind: "esc", XHex: fmt.Sprintf("%x", x)}
	}
	var out string
	oc := protect(func() Outcome { out = mxj.VerifEscapeChars(x); return Outcome{Ret: out} })
	run.sum.OracleEvals++
	if oc.Panicked {
		run.violation(Violation{Key: "escape-panic", What: "escapeChars panicked", Input: c, Got: oc.text(), Want: "a string"})
		return
	}
	if out != specEscape(x) {
		run.violation(Violation{Key: "escape-differs", What: "escapeChars is not the five-entity escaping", Input: c, Got: out, Want: specEscape(x)})
	}
	// the real tokenizer reads the escaped text back as exactly x, as character data and as an attribute value
	legal := utf8.ValidString(x) && !strings.Contains(x, "\r")
	for _, ch := range x {
		if ch < 0x20 && ch != '\t' && ch != '\n' || ch == 0xFFFE || ch == 0xFFFF {
			legal = false
		}
	}
	if legal {
		ts, err := tokenize([]byte("<a>"+out+"</a>"), false)
		got := ""
		for _, t := range ts {
			if t.Kind == "char" {
				got += t.Data
			}
		}
		if err != nil || got != x {
			run.violation(Violation{Key: "escape-text-not-recovered", What: "the tokenizer does not read the escaped character data back as the string", Input: c, Got: fmt.Sprintf("%q %v", got, err), Want: fmt.Sprintf("%q", x)})
		}
		ts, err = tokenize([]byte(`<a v="`+out+`"/>`), false)
		got = ""
		if len(ts) > 0 && len(ts[0].Attrs) == 1 {
			got = ts[0].Attrs[0][2]
		}
		if err != nil || got != x {
			run.violation(Violation{Key: "escape-attr-not-recovered", What: "the tokenizer does not read the escaped attribute value back as the string", Input: c, Got: fmt.Sprintf("%q %v", got, err), Want: fmt.Sprintf("%q", x)})
		}
		run.count("esc-tokenizer-checked")
	}
	run.add("EEsc "+coqStr(x)+" "+coqStr(out), c, out, out != x)
	run.count("esc:" + cat)
}

// c05Set: a history of calls to the two setters, from a given state.
func c05Set(run *Run, c c05Case) {
	defer restoreDefaults()
	mxj.XMLEscapeCharsDecoder(false)
	mxj.XMLEscapeChars(c.Init[0])
	if c.Init[1] {
		mxj.XMLEscapeChars(false)
		mxj.XMLEscapeCharsDecoder(true)
	}
	st := mxj.VerifOptionState()
	e0, d0 := st["xmlEscapeChars"].(bool), st["xmlEscapeCharsDecoder"].(bool)
	var calls []string
	both := false
	for _, k := range c.Calls {
		arg := "None"
		if k.Arg != nil {
			arg = "(Some " + coqBool(*k.Arg) + ")"
		}
		if k.Dec {
			if k.Arg == nil {
				mxj.XMLEscapeCharsDecoder()
			} else {
				mxj.XMLEscapeCharsDecoder(*k.Arg)
			}
			calls = append(calls, "CallEscDec "+arg)
		} else {
			if k.Arg == nil {
				mxj.XMLEscapeChars()
			} else {
				mxj.XMLEscapeChars(*k.Arg)
			}
			calls = append(calls, "CallEsc "+arg)
		}
		st = mxj.VerifOptionState()
		if st["xmlEscapeChars"].(bool) && st["xmlEscapeCharsDecoder"].(bool) {
			both = true
		}
	}
	st = mxj.VerifOptionState()
	e, d := st["xmlEscapeChars"].(bool), st["xmlEscapeCharsDecoder"].(bool)
	run.sum.OracleEvals++
	if both {
		run.violation(Violation{Key: "both-escaping-switches-on", What: "encoder-side and decoder-side escaping are both on after a history of setter calls (values would be escaped twice)", Input: c,
			Got: fmt.Sprintf("xmlEscapeChars=%v xmlEscapeCharsDecoder=%v", e, d), Want: "never both"})
	}
	run.add(fmt.Sprintf("ESet %s %s [%s] %s %s", coqBool(e0), coqBool(d0), strings.Join(calls, ";"), coqBool(e), coqBool(d)), c,
		fmt.Sprintf("(%v,%v) -> (%v,%v)", e0, d0, e, d), len(c.Calls) >= 2)
	run.count("setter-history")
}

func init() {
	props["C05"] = runC05
	replays["C05"] = replayC05
}

func runC05(cfg runCfg) error {
	r := newRng(cfg.seed)
	run := newRun("C05", cfg.out, cfg.seed, cfg.shards, c05EscHeader, "ecase",
		"(1) escapeChars through the verif hook on all 256 single bytes and on random strings over the pieces & < > \" ' &amp; &#x41; &lt; ]]> <![CDATA[ ... (model, one-pass spec, unescape and safety evaluated in Coq; "+
			"the real tokenizer reads the result back as character data and as attribute value); (2) histories of XMLEscapeChars / XMLEscapeCharsDecoder calls (with, without argument) from every start state; "+
			"(3) random documents (depth<=2, 0-2 attributes, text, repeated children, text beside attributes and beside children) whose values are such strings: four encoders x three escaping modes x check on/off "+
			"evaluated by the oracle; Map.Xml bytes (XEnc, with the tokenizer's acceptance bit) and NewMapXml under decoder-side escaping (XDec) compared with the model; "+
			"non-trivial = a value contains one of & < > \" '; distinct by input hash")
	// (1) all single bytes, every run
	for b := 0; b < 256; b++ {
		c05Esc(run, string([]byte{byte(b)}), "single-byte")
	}
	for _, p := range c05EscPieces {
		c05Esc(run, p, "piece")
	}
	// fixed regression documents, every run: an attribute value that closes the tag early, so that the rest
	// follows the root element as character data (tokenizer-accepted, not well formed)
	for _, v := range []string{"\"/>", "--\"/>", "\"/>x", "\"></r><r b=\""} {
		c05Doc(run, r, &c05ENode{Name: "r", Attrs: [][2]string{{"b", v}}}, true)
	}
	t, f := true, false
	args := []*bool{nil, &t, &f}
	for i := 0; i < cfg.n; i++ {
		switch k := i % 10; {
		case k < 2:
			x := r.c05GenEscString()
			if r.chance(0.2) {
				// arbitrary bytes
				bs := make([]byte, 1+r.Intn(6))
				for j := range bs {
					bs[j] = byte(r.Intn(256))
				}
				x += string(bs)
			}
			c05Esc(run, x, "random")
		case k < 3:
			c := c05Case{Kind: "set", Init: [2]bool{r.chance(0.5), r.chance(0.3)}}
			if c.Init[1] {
				c.Init[0] = false
			}
			nc := 1 + r.Intn(6)
			for j := 0; j < nc; j++ {
				c.Calls = append(c.Calls, c05EscCallJ{Dec: r.chance(0.5), Arg: args[r.Intn(3)]})
			}
			c05Set(run, c)
		default:
			c05Doc(run, r, r.c05GenENode("r", 0), false)
		}
	}
	return run.finish()
}

func replayC05(raw []byte) error {
	var c c05Case
	if err := json.Unmarshal(raw, &c); err != nil {
		return err
	}
	switch c.Kind {
	case "esc":
		x := c.X
		if c.XHex != "" {
			fmt.Sscanf(c.XHex, "%x", &x)
		}
		fmt.Printf("escapeChars(%q) = %q\n", x, mxj.VerifEscapeChars(x))
	case "set":
		r := &Run{sum: Summary{Dist: map[string]int{}}, nshards: 1, shards: make([][]string, 1), seen: map[uint64]bool{}}
		c05Set(r, c)
		fmt.Printf("calls: %s\nstate: %s\n", mustJSON(c.Calls), r.sum.Cases[0].Impl)
	default:
		n := c.Doc
		enc := 0
		for i, nm := range c05EncNames {
			if nm == c.Enc {
				enc = i
			}
		}
		mode := 0
		for i, nm := range c05ModeNames {
			if nm == c.Mode {
				mode = i
			}
		}
		id := func(s string) string { return s }
		seq := enc >= 2
		val := map[string]interface{}{n.Name: c05MapForm(n, false, id)}
		if seq {
			val = map[string]interface{}{n.Name: c05SeqForm(n, 0, false, id)}
		}
		o := c05ModeOpts(mode, c.Chk)
		if mode == 2 {
			var sb strings.Builder
			c05RenderE(n, &sb)
			d := c05DecodeWith(o, seq, []byte(sb.String()))
			fmt.Printf("document: %s\ndecoded with XMLEscapeCharsDecoder(true): %s\n", sb.String(), d.text())
			if m, ok := d.Ret.(map[string]interface{}); ok {
				val = m
			}
		}
		out := c05EncodeWith(o, enc, val)
		fmt.Printf("value: %s\n%s with escaping %s, XmlCheckIsValid(%v):\n", canon(val), c05EncNames[enc], c05ModeNames[mode], c.Chk)
		if out.Panicked || out.Err != nil {
			fmt.Println("  " + out.text())
			return nil
		}
		b := out.Ret.([]byte)
		ok, why := c05WellFormed(b)
		fmt.Printf("  bytes: %s\n  error: nil\n  well formed: %v %s\n  decoded again: %s\n", b, ok, why, c05DecodeWith(c05ModeOpts(0, false), seq, b).text())
	}
	return nil
}
